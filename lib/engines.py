"""Glue between the Kani driver and Engine S (which needs the tooling venv's z3)."""
import json
import os
import subprocess
import tempfile

VERIF = os.path.dirname(os.path.dirname(os.path.abspath(__file__)))


OBLIGATIONS = {
    "C16": ["c16_normalize_idempotent", "c16_normalize_layout_insensitive", "c16_normalize_continuation_colon"],
    "C03": ["c03_macro_inv_predicate"],
}


def _engine_s(prop, tier, seed, workdir):
    """One Engine S process per obligation, in parallel; results merged."""
    from concurrent.futures import ThreadPoolExecutor
    cap = 1500 if tier == "quick" else 10800

    def one(name):
        out = os.path.join(workdir, "engine_s_%s_%s.json" % (prop, name))
        try:
            p = subprocess.run(["python3-vt", os.path.join(VERIF, "lib", "engine_s.py"), "--prop", prop, "--tier", tier,
                                "--only", name, "--out", out], stdout=subprocess.PIPE, stderr=subprocess.STDOUT,
                               text=True, timeout=cap)
        except subprocess.TimeoutExpired:
            return {"engine": "S", "inconclusive": ["Engine S obligation %s timed out after %d s" % (name, cap)]}
        if not os.path.exists(out):
            return {"engine": "S", "inconclusive": ["Engine S crashed on %s: %s" % (name, p.stdout[-500:])]}
        return json.load(open(out))

    with ThreadPoolExecutor(max_workers=4) as ex:
        parts = list(ex.map(one, OBLIGATIONS.get(prop, [])))
    r = {"engine": "S", "obligations": 0, "discharged": 0, "queries": 0, "solver_s": 0.0, "inconclusive": [],
         "samples": [], "details": [], "violations_raw": [], "functions": [], "translator_validation": None}
    for part in parts:
        for k in ("obligations", "discharged", "queries", "solver_s"):
            r[k] += part.get(k, 0)
        for k in ("inconclusive", "samples", "details", "violations_raw"):
            r[k] += part.get(k, [])
        for f in part.get("functions", []):
            if f not in r["functions"]:
                r["functions"].append(f)
        r["translator_validation"] = part.get("translator_validation", r["translator_validation"])
    # turn raw (natively confirmed) violations into replay records / known findings
    known = []
    kf = os.path.join(VERIF, "known_findings.json")
    if os.path.exists(kf):
        known = [k for k in json.load(open(kf)).get("findings", []) if k.get("status") == "open"]
    rep_dir = os.path.join(os.environ.get("VERIF_REPLAY_DIR") or os.path.join(VERIF, "replays"), prop)
    viol, kn = [], []
    for name, witness, what in r.get("violations_raw", []):
        hit = [k for k in known if k.get("property") == prop and k.get("harness") == name]
        if hit:
            kn.append(hit[0])
            continue
        os.makedirs(rep_dir, exist_ok=True)
        path = os.path.join(rep_dir, name + ".json")
        json.dump({"engine": "S", "property": prop, "obligation": name, "witness": witness, "native": what},
                  open(path, "w"), indent=1)
        viol.append(path)
    r["violations"] = viol
    r["known"] = kn
    return r


def engines_for(prop):
    if prop in ("C03", "C16"):
        return [_engine_s]
    return []


def replay(rec):
    """Replay an Engine S witness natively on the current tree."""
    import sys
    p = subprocess.run(["python3-vt", "-c", (
        "import sys, json; sys.path.insert(0, %r); import engine_s as e;"
        "rec = json.load(open(%r));"
        "w = rec['witness'];"
        "k = 'macro_inv' if 'step' in w else 'normalize';"
        "ins = [w['step']] if 'step' in w else [v for v in w.values()];"
        "print(e.native_eval(k, ins))") % (os.path.join(VERIF, "lib"), rec["_path"])],
        stdout=subprocess.PIPE, stderr=subprocess.STDOUT, text=True)
    print(p.stdout[-2000:])
    return 0
