"""Glue between the Kani driver and Engine S (which needs the tooling venv's z3)."""
import json
import os
import subprocess
import tempfile

VERIF = os.path.dirname(os.path.dirname(os.path.abspath(__file__)))


def _engine_s(prop, tier, seed, workdir):
    out = os.path.join(workdir, "engine_s_%s.json" % prop)
    cap = 1500 if tier == "quick" else 7200
    try:
        p = subprocess.run(["python3-vt", os.path.join(VERIF, "lib", "engine_s.py"), "--prop", prop, "--tier", tier,
                            "--out", out], stdout=subprocess.PIPE, stderr=subprocess.STDOUT, text=True, timeout=cap)
    except subprocess.TimeoutExpired:
        return {"engine": "S", "inconclusive": ["Engine S timed out after %d s" % cap]}
    if not os.path.exists(out):
        return {"engine": "S", "inconclusive": ["Engine S crashed: " + p.stdout[-500:]]}
    r = json.load(open(out))
    # turn raw (natively confirmed) violations into replay records / known findings
    known = []
    kf = os.path.join(VERIF, "known_findings.json")
    if os.path.exists(kf):
        known = [k for k in json.load(open(kf)).get("findings", []) if k.get("status") == "open"]
    rep_dir = os.path.join(os.environ.get("VERIF_REPLAY_DIR") or os.path.join(VERIF, "replays"), prop)
    viol, kn = [], []
    for name, witness, what in r.get("violations_raw", []):
        hit = [k for k in known if k.get("property") == prop and k.get("harness") == name]
        if hit:
            kn.append(hit[0])
            continue
        os.makedirs(rep_dir, exist_ok=True)
        path = os.path.join(rep_dir, name + ".json")
        json.dump({"engine": "S", "property": prop, "obligation": name, "witness": witness, "native": what},
                  open(path, "w"), indent=1)
        viol.append(path)
    r["violations"] = viol
    r["known"] = kn
    return r


def engines_for(prop):
    if prop in ("C03", "C16"):
        return [_engine_s]
    return []


def replay(rec):
    """Replay an Engine S witness natively on the current tree."""
    import sys
    p = subprocess.run(["python3-vt", "-c", (
        "import sys, json; sys.path.insert(0, %r); import engine_s as e;"
        "rec = json.load(open(%r));"
        "w = rec['witness'];"
        "k = 'macro_inv' if 'step' in w else 'normalize';"
        "ins = [w['step']] if 'step' in w else [v for v in w.values()];"
        "print(e.native_eval(k, ins))") % (os.path.join(VERIF, "lib"), rec["_path"])],
        stdout=subprocess.PIPE, stderr=subprocess.STDOUT, text=True)
    print(p.stdout[-2000:])
    return 0
