#!/usr/bin/env python3
"""Regenerates /verif/MANIFEST.json from the table below (kept next to the driver so the
manifest, the registry of harnesses and DESIGN.md stay in step)."""
import json
import os

VERIF = os.path.dirname(os.path.dirname(os.path.abspath(__file__)))

TRUST = ("Trusted: Kani 0.68 MIR->GOTO translation, CBMC 6.11 bit-precise encodings (dev-profile semantics), "
         "the harness oracles written from the property text. Bounded: every verdict holds for all inputs within the "
         "bound stated per harness in the evidence file (unwinding assertions on; a failed unwinding assertion, "
         "time-out or OOM is 'undecided', never a pass). ")

CLAIMED = {
    "C19": dict(
        text="Bounded model checking of the compiled container and angular-encoding code: every obligation is a CBMC "
             "query over all f64 bit patterns / all indices (moves, accessors, NaN fill) or over a stated bounded value "
             "domain (float arithmetic equivalence). Counterexamples are replayed natively before they are reported.",
        note=TRUST + "No stubs. Arithmetic-operator equivalence is decided over the value domains D-SMALL/D-TABLE "
             "(harness/_common.rs) because a fully symbolic float-multiplier equivalence does not finish in CBMC.",
        technique="Kani/CBMC bounded model checking (SAT, cadical) of harnesses appended to a scratch copy of /repo",
        design="4 (C19)"),
}

CLAIMED["C12"] = dict(
    text="Bounded model checking of the compiled stack primitives (stack_push/pop/flip/roll) against the abstract "
         "machine of Rumination 002 as one inductive step from an arbitrary stack state (concrete depth 0..4, symbolic "
         "contents/arguments), and of the dispatch layer stack_fwd/stack_inv (every action x direction) against the "
         "primitives with the documented inverse argument transformations; panics, underflow stomping and counts "
         "included.",
    note=TRUST + "M-BTREE (inline sorted-array model of BTreeMap, validated by the repo's unit tests) for the dispatch "
         "harnesses; core::result::unwrap_failed stubbed (panic kept, message dropped). Representation invariant "
         "assumed: every stack column has one row per operand. Outside: stack::new validation (text), depths > 4, "
         "more than 2 operands.",
    technique="Kani/CBMC bounded model checking (SAT, cadical): inductive step per stack instruction + dispatch differential",
    design="4 (C12)")

CLAIMED["C03"] = dict(
    text="Bounded model checking of the compiled pipeline executor (pipeline_fwd / pipeline_inv / Op::apply): a "
         "pipeline of 0..3 steps with non-commuting exact marker kernels, symbolic per-step inv/omit_fwd/omit_inv "
         "(all 2^(3N) placements), symbolic per-step success counts and all operand bit patterns equals the fold "
         "written from the property text, both directions, incl. the pipeline itself inverted; steps named stack/push/"
         "pop are routed to the stack machine in both directions with a fresh stack per application.",
    note=TRUST + "M-BTREE for the flag sets; steps are harness-built Op values (struct literals). Engine S adds one "
         "obligation on the text front end: the macro-inversion predicate of Op::op (read from src/op/mod.rs) agrees "
         "with 'inv or inv=true is one of the words of the step' for all normalized macro steps of <= 12 units. "
         "Otherwise the placement of modifiers in definition text and macro bodies is outside this check.",
    technique="Kani/CBMC bounded model checking (SAT): pipeline fold vs reference fold over symbolic flags",
    design="4 (C03)")

CLAIMED["C07"] = dict(
    text="Bounded model checking of the compiled Helmert kernel (helmert_common, rotation_matrix): position-vector "
         "matrix is the bitwise transpose of the coordinate-frame matrix in both modes; small-angle matrix is "
         "I+skew(r) and pv(r)=cf(-r); exact matrix equals the documented product ROTZ*ROTY*ROTX for uninterpreted "
         "sin/cos; the fourth coordinate is bit-identical and count=n for all f64 parameters/flags/tuples; every "
         "tuple of a mixed-epoch set is transformed with T+(t-t_epoch)*DT, S+(t-t_epoch)*DS; inverse undoes forward; "
         "the rotated static case uses ROT forward and ROT^T inverse.",
    note=TRUST + "M-BTREE; S-ACC for ParsedParameters::boolean (flag table, real set filled as well); S-UF-SMALL for "
         "f64::sin_cos (a fixed bit-mixing function with values in {-3..3}); float arithmetic equivalence over "
         "D-SMALL/D-TINY. Outside: orthogonality/scale of distances (needs sin^2+cos^2=1), molodensky agreement, "
         "alias/unit handling and t_obs folding in helmert::new (text front end).",
    technique="Kani/CBMC bounded model checking (SAT) with uninterpreted libm and bounded value domains",
    design="4 (C07)")
CLAIMED["C11"] = dict(
    text="Bounded model checking of the compiled adapt/axisswap/unitconvert code: for all valid from/to descriptor "
         "pairs (symbolic permutation, signs, unit) the adapt kernels deliver out[i]=in[j]*F.mult[j]/T.mult[i], the "
         "inverse is the reverse mapping, to=X equals inv from=X; axisswap realises every signed partial permutation "
         "of 1..4 axes and its inverse bitwise for all f64; axisswap::new (text front end stubbed, S-PPNEW) accepts an "
         "order list iff it is a signed partial permutation of at most 4 axes; every unit table row resolves to its "
         "own factor; the unitconvert kernels multiply/divide x,y,z and leave t untouched.",
    note=TRUST + "M-BTREE. Tuple values for float arithmetic in D-SMALL, unit factors in {1,deg,gon} resp. {1..4}. "
         "The angular factor is attached to the two leading positions of a descriptor, as the code and its tests do. "
         "S-PPNEW harnesses: ParsedParameters::new/OpDescriptor::new/Uuid::new_v4/<f64 as Display>::fmt stubbed, "
         "allocator-model assertions of the drop glue on error paths ignored (DESIGN 9.2 item 8). Outside: "
         "rejection of unknown unit names and of ill-formed descriptors at instantiation (text); the descriptor text parser is "
         "thorough-tier only (may time out, then reported undecided).",
    technique="Kani/CBMC bounded model checking (SAT) over symbolic descriptors and permutations",
    design="4 (C11)")

CLAIMED["C08"] = dict(
    text="Bounded model checking of the compiled grid code (BaseGrid::plain/contains/at, grids_at): plain either "
         "errs or establishes the representation invariant INV for every 7-number header; from any INV state the "
         "lookup is panic-free and in bounds for all f64 geometry/query/margin; containment is borders + margin*cell "
         "per axis and at()==Some iff contained; node values are reproduced at nodes for 1..3 bands; inside cells and "
         "in the half-cell margin the result is the bilinear formula of the 4 surrounding nodes (and within their "
         "range inside the grid); among several grids the first hit at margin 0, then at margin 0.5, then the null "
         "grid/None.",
    note=TRUST + "No library model except S-ANY for f64::ceil/floor in the memory-safety harnesses (arbitrary result, "
         "an over-approximation). Grid sizes rows,cols in 2..3, bands 1..4, node values all f32 (safety) resp. "
         "D-SMALL and quarter-cell query offsets (weights). Outside: continuity for arbitrary real geometry, NTv2 "
         "sub-grid selection and operator sign/unit conventions until their harnesses are listed in the evidence.",
    technique="Kani/CBMC bounded model checking (SAT): inductive representation invariant + exact-geometry interpolation oracle",
    design="4 (C08)")

CLAIMED["C16"] = dict(
    text="Engine S: the method chain of Tokenize::normalize is read from the current source and translated into a "
         "bounded bit-vector encoding; z3 decides, for all strings of up to 7 (quick) / 9 (thorough) code units over "
         "{a,b,space,newline,=,:,|,comma,$} satisfying the well-formedness side conditions, that normalisation is "
         "idempotent, insensitive to an extra blank/newline next to a separator or at either end, and to a "
         "continuation colon after a line break. Witnesses are replayed through the native Tokenize methods.",
    note="Trusted: the definitional models of trim/trim_matches/replace/split_whitespace+join in lib/engine_s.py "
         "(validated on every run against the native function on the repo's tokenizer test literals), z3 (cvc5 "
         "cross-check in the thorough tier). Bounded: string length and alphabet as stated; longer texts, other code "
         "points, </> sugar (tenfold expansion) and subscript digits are outside. Outside as well: split_into_steps, "
         "split_into_parameters, ParsedParameters::new typing/defaults and parse_sexagesimal (String/loop code that "
         "neither Kani nor a method-chain translator reaches within the cap).",
    technique="source->SMT translation of the str method chain, QF_BV queries decided by z3 (cvc5 cross-check)",
    design="1.3, 4 (C16)", engine="S")

CLAIMED["C15"] = dict(
    text="Bounded model checking of the compiled decoders: Ntv2Grid::new on every buffer (arbitrary content) of "
         "length 0, 8, 11, 62 and 175 returns an error value without panic or out-of-bounds read; a well-formed "
         "176-byte overview header decodes; the sub grid header reader returns without panic on every 176-byte "
         "header in either byte order; the node-section reader, for every start offset and claimed node count on 40/48 "
         "arbitrary bytes, returns an error or exactly 2n values without reading past the end; BaseGrid::plain maps every 7-number header to an error or to a grid "
         "satisfying the representation invariant from which every query is safe (shared with C08); the Gravsoft "
         "post-parse step applies the documented unit/order conventions for 1, 2 and 3 bands.",
    note=TRUST + "M-BTREE; M-UTF8 (from_utf8 modelled as: ASCII valid, anything else rejected - an under-"
         "approximation for non-ASCII sub grid names). Whole files of 176 bytes and more through Ntv2Grid::new followed by "
         "a query are thorough-tier only and may time out (reported undecided): CBMC loses the contents of the heap "
         "copy the parser makes of the buffer; the quick tier decides the header reader, the node-section reader, "
         "BaseGrid::plain and the lookup separately. Outside: the Gravsoft text "
         "reader (BufRead/split/parse on text), .gsa/.gsb twin equality, shipped files, Plain's file lookup.",
    technique="Kani/CBMC bounded model checking (SAT) of the byte-level decoders on arbitrary buffer contents",
    design="4 (C15)")

CLAIMED["C01"] = dict(
    text="Bounded model checking of the compiled direction/inversion logic: Op::apply with a symbolic inverted flag and "
         "direction calls the two kernels exactly once each and restores every bit; an inverted operator equals the "
         "plain one with directions exchanged; handle_inversion toggles exactly when asked, refuses non-invertible "
         "operators; addone round trip. Exact operators' round trips are decided under C11 (adapt, axisswap, "
         "unitconvert), C07 (Helmert), C12 (stack), C03 (pipelines) and are not repeated here.",
    note=TRUST + "M-BTREE. Marker kernels stand in for operator kernels at the dispatch level. Outside: round-trip "
         "accuracy of every operator whose kernel calls libm (projections, cart, latitude, molodensky, ...): a "
         "statement about compositions of transcendental functions for which CBMC has no precise model.",
    technique="Kani/CBMC bounded model checking (SAT) of the dispatch logic with marker kernels",
    design="4 (C01)")
CLAIMED["C02"] = dict(
    text="Bounded model checking of tuple independence as 2-safety obligations on the compiled kernels: dynamic "
         "Helmert and deformation (S-GRID grids) give bit-identical results for a batch and for its singletons, "
         "counts add; the same tuple through arrays, vectors, slices, 3D+epoch, 2D+height+epoch, 2D and 32-bit "
         "containers yields the same stored dimensions; CoordinateSet accessors agree with get_coord/set_coord.",
    note=TRUST + "M-BTREE, S-ACC(boolean), S-GRID, S-UF-SMALL for the libm calls of GeoCart::geographic, "
         "rotate_and_integrate_velocity replaced by duration*v. Values in D-TINY/D-SMALL where arithmetic is "
         "compared. Set length 2 (3 and reversed order in the thorough tier). Outside: the libm-based projections "
         "(relational float proofs over 50-100 multiplications do not finish), geodesic, sets longer than 3.",
    technique="Kani/CBMC bounded model checking (SAT): relational batch-vs-singleton harnesses, container differential",
    design="4 (C02)")
CLAIMED["C10"] = dict(
    text="Bounded model checking of failure visibility on the compiled grid operators with arbitrary grids (S-GRID): "
         "gridshift forward subtracts band 0 from the height (1 band) or adds bands 0,1 to x,y (2 bands), other "
         "elements bit-identical, first-hit grid, count honest, a tuple outside all grids is all NaN unless the null "
         "grid is given; gridshift inverse: count <= n and an uncounted tuple is NaN whatever the grids answer and "
         "whether or not the iteration converges; deformation forward/inverse: first-hit grid, per-tuple epoch, "
         "honest count, NaN for uncovered tuples, null grid passes unchanged; the placeholder inverse of a one-way "
         "operator returns 0 and touches nothing; cart inverse transforms AND counts points on the rotation axis; "
         "thorough tier: tmerc inverse strip guard.",
    note=TRUST + "M-BTREE, S-ACC(boolean), S-GRID (a Grid impl answering arbitrarily but monotonically in the "
         "margin; S-GRID-SEQ answers arbitrarily per lookup, for the inverse iteration), S-UF-SMALL(hypot; atan2/hypot/"
         "sqrt/powi inside geographic). Stack underflow (C12) and the pipeline "
         "minimum rule (C03) are decided by those checks. Outside: domain limits of projections (tmerc strip, laea "
         "disc) - their guards compare libm results.",
    technique="Kani/CBMC bounded model checking (SAT) with nondeterministic grid stubs",
    design="4 (C10)")
CLAIMED["C13"] = dict(
    text="Bounded model checking of apply-time parameter conventions as relations between two runs of the compiled "
         "merc kernel with uninterpreted-but-consistent libm: x_0,y_0 are added to the forward result and removed by "
         "the inverse, lon_0 given in degrees is equivalent to subtracting it (in radians) from the input longitude, "
         "height and time are bit-identical; the noop kernel (shared by all aliases) returns every tuple untouched "
         "and counts it. Constructor level, with the text front end stubbed (S-PPNEW): `utm zone=Z [south]` stores "
         "exactly lon_0=6Z-183, k_0=0.9996, x_0=500000, lat_0=0, y_0=0/10000000 and refuses zones outside 1..60; "
         "`merc lat_ts=L` replaces k_0 by cos L/sqrt(1-e^2 sin^2 L) for every non-zero L of either sign.",
    note=TRUST + "M-BTREE; S-ACC for the indexed accessors k/x/y/lat/lon and ellps (values also written to the "
         "real map); S-UF-SMALL for tan, asinh, sin, atanh, sinh, atan, exp, sqrt, sin_cos; S-PPNEW: ParsedParameters::new, "
         "OpDescriptor::new, Uuid::new_v4 and tmerc's shared precompute step stubbed (counterexamples are replayed "
         "through the real text front end). Values in D-SMALL. Outside: the "
         "same relations for tmerc/lcc/laea/omerc/somerc (kernels with 50-100 float operations: relational proofs "
         "do not finish), and every relation between constructors (utm vs tmerc, lat_ts vs k_0, 1SP vs 2SP lcc, "
         "semi-major-axis scaling, merc(sphere) vs webmerc), which live behind text instantiation and libm.",
    technique="Kani/CBMC bounded model checking (SAT): relational two-run harnesses with uninterpreted libm",
    design="4 (C13)")

CLAIMED["C09"] = dict(
    text="Bounded model checking of panic freedom (Kani's own overflow/division/cast/bounds checks are the property) "
         "of the public angular functions on every bit pattern of their arguments: the four ISO-6709 conversions on "
         "all f64, dms_to_dd/dm_to_dd on all i32 degrees, all u16 minutes, all f64 seconds. Panic freedom of the "
         "stack dispatch (C12), the grid lookup and decoders (C08, C15) is decided by those checks.",
    note=TRUST + "No stubs. Dev-profile semantics (integer overflow panics). Outside: Context::op on arbitrary text "
         "(String/BTreeMap-heavy instantiation is out of CBMC's reach), parse_sexagesimal, the ellipsoid module, "
         "operator kernels on arbitrary tuples (they call libm; Kani's libm models are nondeterministic, panics in "
         "them are not meaningful), normalize_* (fmod; thorough tier, may time out).",
    technique="Kani/CBMC bounded model checking (SAT): panic freedom on all bit patterns",
    design="4 (C09)")

NA = {
    "C05": "differential identities over compositions of libm functions on the ellipsoid: no precise libm in CBMC, no "
           "theory of sin/atanh/exp in z3/cvc5; uninterpreted functions erase what the property is about (DESIGN 4/C05)",
    "C06": "same for geodesics, auxiliary latitudes, meridian arcs, cartesian conversion; the discrete table sentence "
           "is an enumeration of 47 dec2flt parses (CBMC does not finish dec2flt), not a solver question (DESIGN 4/C06)",
    "C04": "macro expansion and its termination argument live entirely in text instantiation (RawParameters::next -> "
           "is_resource_name -> split_into_parameters -> normalize, chase over String maps, Op::op recursion): String/"
           "BTreeMap code on symbolic text that Kani does not finish even on 4 symbolic bytes, and Engine S covers pure "
           "method chains only; the recursion counter alone (level > 100) is two lines and would claim nothing of the "
           "property (DESIGN 4/C04)",
    "C14": "the numeric pairs (tmerc/btmerc, Fukushima/Bowring, series/closed forms) need libm; the thin-wrapper pairs "
           "(cart vs ellipsoid method, latitude/curvature/gravity operators vs trait methods) are relational float "
           "proofs of 10-50 multiplications each, which CBMC does not finish (DESIGN 1.6, probes I/J/K); Minimal vs "
           "Plain is an I/O statement. Nothing of C14 is decided here",
    "C17": "parse_proj/tidy_proj are imperative String/Vec<String> loops over unbounded text; Kani does not finish the "
           "normalize sub-expression on 4 symbolic bytes and Engine S only covers pure method chains (DESIGN 4/C17)",
    "C18": "quantifies over API histories and thread schedules on UUID-keyed maps, a Mutex-guarded grid cache, file "
           "system lookups and OS threads: Kani has no concurrency, I/O or randomness model (DESIGN 4/C18)",
    "C20": "process-level behaviour of the kp binary (argv, stdin/files, println formatting, exit status): outside "
           "any Kani/CBMC model (DESIGN 4/C20)",
}

PENDING = "check not built yet in this session (planned as 'claimed' in DESIGN.md section 4); listed here so that " \
          "no unbuilt property is claimed"

ALL = ["C%02d" % i for i in range(1, 21)]


def main():
    checks = []
    for pid in ALL:
        if pid not in CLAIMED:
            continue
        c = CLAIMED[pid]
        checks.append({
            "property_id": pid,
            "quick_cmd": "./bin/check %s --tier quick" % pid,
            "thorough_cmd": "./bin/check %s --tier thorough" % pid,
            "evidence_file": "evidence/%s.json" % pid,
            "replay_cmd_template": "./bin/check %s --replay {path}" % pid,
            "engine": c.get("engine", "K"),
            "level_claimed": {"category": "model_checking", "text": c["text"], "design_ref": c["design"]},
            "level_note": c["note"],
            "technique": c["technique"],
        })
    na = []
    for pid in ALL:
        if pid in CLAIMED:
            continue
        na.append({"property_id": pid, "reason": NA.get(pid, PENDING)})
    man = {
        "version": 1,
        "setup_cmd": "./bin/setup",
        "hooks": {
            "guard": "cfg(kani)",
            "enable": "automatic under `cargo kani`: the harness modules live in /verif/harness and are appended, "
                      "under #[cfg(kani)], to a scratch copy of /repo's working tree on every run; /repo itself "
                      "carries no hook",
            "baseline_off_cmd": "cd /repo && cargo test --workspace --no-fail-fast --offline",
            "source_commits": [],
            "add_only": True,
        },
        "engines": [
            {"name": "K", "path": "lib/driver.py", "serves_properties": sorted(CLAIMED),
             "kind_free_text": "Kani 0.68 / CBMC 6.11 bounded model checking of harnesses injected into a scratch "
                               "copy of the current /repo working tree; native replay of counterexamples"},
            {"name": "S", "path": "lib/engine_s.py", "serves_properties": [p for p in ("C03", "C16") if p in CLAIMED],
             "kind_free_text": "source->SMT translator for the str method chain of Tokenize::normalize (z3 bit-vectors, "
                               "cvc5 cross-check)"},
        ],
        "checks": checks,
        "not_applicable": na,
        "notes": "Exit codes of bin/check: 0 held / only known findings, 1 VIOLATION (replayed natively), 2 inconclusive "
                 "(build failure, harness no longer compiles, counterexample not reproduced, undecided obligation).",
    }
    json.dump(man, open(os.path.join(VERIF, "MANIFEST.json"), "w"), indent=1)
    print("MANIFEST.json: %d checks, %d not_applicable" % (len(checks), len(na)))


if __name__ == "__main__":
    main()
