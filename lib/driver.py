#!/usr/bin/env python3
"""Check driver for the solver-based verification of busstoptaktik/geodesy.

Engine K: copy /repo's working tree to a private scratch directory, append the Kani
harness modules of the requested property to the scratch sources, apply the library
model substitutions (M-BTREE), run `cargo kani` (CBMC decides every harness), parse the
verdicts, replay counterexamples natively and write the evidence file.

Exit codes: 0 = every obligation of the tier held (or is a listed known finding),
1 = a violation that is not listed (prints VIOLATION property=<id> replay=<path>),
2 = inconclusive (build failure, harness no longer compiles, counterexample that does
    not reproduce natively); never a VIOLATION line in that case.
"""
import hashlib
import json
import os
import re
import shutil
import signal
import subprocess
import sys
import tempfile
import threading
import time

VERIF = os.path.dirname(os.path.dirname(os.path.abspath(__file__)))
REPO = os.environ.get("VERIF_REPO", "/repo")
HARNESS_DIR = os.path.join(VERIF, "harness")
MODELS_DIR = os.path.join(VERIF, "models")
EVIDENCE_DIR = os.environ.get("VERIF_EVIDENCE_DIR") or os.path.join(VERIF, "evidence")
REPLAY_DIR = os.environ.get("VERIF_REPLAY_DIR") or os.path.join(VERIF, "replays")
KNOWN = os.path.join(VERIF, "known_findings.json")
NCPU = os.cpu_count() or 4

QUICK_CAP_S = 420      # per harness, quick tier
THOROUGH_CAP_S = 1800  # per harness, thorough tier
RSS_CAP_KB = 12 * 1024 * 1024


def log(*a):
    print(*a, flush=True)


# --------------------------------------------------------------------------------------
# Harness registry: parsed from the `// @harness` lines of /verif/harness/**.rs
# --------------------------------------------------------------------------------------

class Harness:
    def __init__(self, name, prop, tier, file, target, attrs):
        self.name = name
        self.prop = prop
        self.tier = tier          # quick | thorough
        self.file = file          # harness source file
        self.target = target      # repo-relative source file it is appended to
        self.attrs = attrs        # dict of free attributes (cap, expect, note, btree, ...)

    def cap(self, tier):
        if "cap" in self.attrs:
            return int(self.attrs["cap"])
        return QUICK_CAP_S if tier == "quick" else THOROUGH_CAP_S


META_RE = re.compile(r"^\s*//\s*@harness\s+(\w+)\s+(.*)$")
KV_RE = re.compile(r'(\w+)=("([^"]*)"|\S+)')


def harness_files():
    out = []
    for root, _dirs, files in os.walk(HARNESS_DIR):
        for f in sorted(files):
            if f.endswith(".rs") and not f.startswith("_"):
                out.append(os.path.join(root, f))
    return sorted(out)


def target_of(path):
    """harness/inner_op/helmert.c07.rs -> src/inner_op/helmert.rs"""
    rel = os.path.relpath(path, HARNESS_DIR)
    d, base = os.path.split(rel)
    stem = base.split(".")[0]
    return os.path.join("src", d, stem + ".rs")


def load_registry():
    reg = []
    for path in harness_files():
        tgt = target_of(path)
        with open(path) as fh:
            for line in fh:
                m = META_RE.match(line)
                if not m:
                    continue
                name, rest = m.group(1), m.group(2)
                attrs = {}
                for kv in KV_RE.finditer(rest):
                    v = kv.group(3) if kv.group(3) is not None else kv.group(2)
                    attrs[kv.group(1)] = v
                reg.append(Harness(name, attrs.get("prop", "?"), attrs.get("tier", "quick"),
                                   path, tgt, attrs))
    return reg


# --------------------------------------------------------------------------------------
# Scratch copy, injection, substitutions
# --------------------------------------------------------------------------------------

def src_tree_sha(root):
    h = hashlib.sha256()
    for d, _dirs, files in sorted(os.walk(os.path.join(root, "src"))):
        for f in sorted(files):
            p = os.path.join(d, f)
            h.update(os.path.relpath(p, root).encode())
            with open(p, "rb") as fh:
                h.update(fh.read())
    return h.hexdigest()


def make_scratch(tag):
    base = os.environ.get("VERIF_SCRATCH") or tempfile.gettempdir()
    d = tempfile.mkdtemp(prefix="geodesy-verif.%s." % tag, dir=base)
    subprocess.check_call(["rsync", "-a", "--exclude", "target", "--exclude", ".git",
                           REPO + "/", d + "/"])
    os.makedirs(os.path.join(d, ".cargo"), exist_ok=True)
    with open(os.path.join(d, ".cargo", "config.toml"), "w") as fh:
        fh.write("[net]\noffline = true\n")
    return d


BTREE_USE_RE = re.compile(r"^(\s*)(pub\s+)?use\s+std::collections::(\{[^}]*\}|BTreeMap|BTreeSet)\s*;", re.M)


def substitute_btree(scratch, cap=None):
    """M-BTREE: rewrite `use std::collections::BTree*` to the inline sorted-array model.
    `cap` overrides the per-map capacity used under Kani (harness attribute btree_cap)."""
    src = open(os.path.join(MODELS_DIR, "verif_btree.rs")).read()
    if cap:
        src = re.sub(r"(#\[cfg\(kani\)\]\s*pub const CAP: usize = )\d+;", r"\g<1>%d;" % int(cap), src)
    open(os.path.join(scratch, "src", "verif_btree.rs"), "w").write(src)
    n = 0
    for d, _dirs, files in os.walk(os.path.join(scratch, "src")):
        for f in files:
            if not f.endswith(".rs") or f == "verif_btree.rs":
                continue
            p = os.path.join(d, f)
            s = open(p).read()

            def repl(m):
                items = m.group(3)
                if "BTree" not in items:
                    return m.group(0)
                return "%s%suse crate::verif_btree::%s;" % (m.group(1), m.group(2) or "", items)
            s2 = BTREE_USE_RE.sub(repl, s)
            s2 = s2.replace("std::collections::BTreeMap<", "crate::verif_btree::BTreeMap<")
            if s2 != s:
                n += 1
                open(p, "w").write(s2)
    lib = os.path.join(scratch, "src", "lib.rs")
    s = open(lib).read()
    s += "\n#[allow(dead_code)]\npub mod verif_btree;\n"
    open(lib, "w").write(s)
    return n


def inject(scratch, files, btree, btree_cap=None):
    """Append harness modules; returns list of (target, harness file)."""
    lib = os.path.join(scratch, "src", "lib.rs")
    s = open(lib).read()
    # inner attributes must precede items and outer doc attributes
    s = '#![recursion_limit = "1024"]\n' + s
    common = os.path.join(HARNESS_DIR, "_common.rs")
    if os.path.exists(common):
        s += ("\n#[cfg(kani)]\n#[allow(dead_code, unused_imports, static_mut_refs, unused_variables)]\n"
              "pub(crate) mod verif_common {\n    include!(\"%s\");\n}\n" % common)
    open(lib, "w").write(s)
    done = []
    for i, f in enumerate(files):
        tgt = os.path.join(scratch, target_of(f))
        if not os.path.exists(tgt):
            raise RuntimeError("harness target missing in repo: %s" % target_of(f))
        modname = "verif_kani_" + re.sub(r"\W", "_", os.path.basename(f)[:-3])
        with open(tgt, "a") as fh:
            fh.write("\n#[cfg(kani)]\n#[allow(dead_code, unused_imports, static_mut_refs, unused_variables, "
                     "unused_mut, clippy::all)]\nmod %s {\n    use super::*;\n    #[allow(unused_imports)]\n"
                     "    use crate::verif_common::*;\n    include!(\"%s\");\n}\n" % (modname, f))
        done.append((target_of(f), f))
    if btree:
        substitute_btree(scratch, btree_cap)
    return done


def validate_models():
    """M-BTREE validation: the repository's own unit tests against the substituted build."""
    scratch = make_scratch("models")
    try:
        substitute_btree(scratch)
        env = dict(os.environ)
        env["CARGO_NET_OFFLINE"] = "true"
        env["CARGO_TARGET_DIR"] = os.path.join(scratch, "tt")
        env["RUST_MIN_STACK"] = "1073741824"   # the inline maps are large
        p = subprocess.run(["cargo", "test", "--offline", "--lib"], cwd=scratch, env=env,
                           stdout=subprocess.PIPE, stderr=subprocess.STDOUT, text=True, timeout=1800)
        m = re.search(r"test result: (\w+)\. (\d+) passed; (\d+) failed", p.stdout)
        if not m:
            return False, "no test result: " + p.stdout[-400:]
        ok = m.group(1) == "ok" and int(m.group(3)) == 0
        return ok, "%s passed, %s failed with M-BTREE substituted" % (m.group(2), m.group(3))
    finally:
        shutil.rmtree(scratch, ignore_errors=True)


# --------------------------------------------------------------------------------------
# Running Kani
# --------------------------------------------------------------------------------------

class Result:
    def __init__(self, name):
        self.name = name
        self.status = "undecided"   # holds | violated | undecided
        self.reason = ""
        self.checks = 0
        self.failed_checks = []     # list of (description, location)
        self.cover_sat = 0
        self.cover_total = 0
        self.time_s = 0.0
        self.vars = 0
        self.clauses = 0
        self.raw = ""


HEAD_RE = re.compile(r"^(?:Thread (\d+): )?Checking harness (\S+?)\.\.\.", re.M)
THREAD_RE = re.compile(r"^Thread (\d+): ?(.*)$")


def split_blocks(text):
    """Per-harness output blocks. Sequential runs print `Checking harness X...` followed by the
    result; with -j every line group is prefixed by `Thread N:` and blocks interleave."""
    blocks = {}
    order = []
    current = {}      # thread -> harness
    active = None     # harness receiving lines
    for line in text.splitlines():
        if line.startswith("Manual Harness Summary") or line.startswith("Complete - "):
            active = None
            continue
        m = THREAD_RE.match(line)
        if m:
            th, rest = m.group(1), m.group(2)
            mh = re.match(r"Checking harness (\S+?)\.\.\.", rest)
            if mh:
                current[th] = mh.group(1)
                blocks.setdefault(mh.group(1), [])
                order.append(mh.group(1))
                active = mh.group(1)
            else:
                active = current.get(th)
                if active is not None and rest:
                    blocks[active].append(rest)
            continue
        mh = re.match(r"Checking harness (\S+?)\.\.\.", line)
        if mh:
            active = mh.group(1)
            blocks.setdefault(active, [])
            order.append(active)
            continue
        if active is not None:
            blocks[active].append(line)
    return [(n, "\n".join(blocks[n])) for n in dict.fromkeys(order)]


def parse_kani_output(text, names):
    results = {}
    blocks = split_blocks(text)
    for fq, blk in blocks:
        short = fq.split("::")[-1]
        r = Result(short)
        r.raw = blk
        m = re.search(r"VERIFICATION:- (SUCCESSFUL|FAILED)", blk)
        mt = re.search(r"Verification Time: ([0-9.]+)s", blk)
        if mt:
            r.time_s = float(mt.group(1))
        mv = re.search(r"(\d+) variables, (\d+) clauses", blk)
        if mv:
            r.vars, r.clauses = int(mv.group(1)), int(mv.group(2))
        ms = re.search(r"\*\* (\d+) of (\d+) failed", blk)
        if ms:
            r.checks = int(ms.group(2))
        mc = re.search(r"\*\* (\d+) of (\d+) cover properties satisfied", blk)
        if mc:
            r.cover_sat, r.cover_total = int(mc.group(1)), int(mc.group(2))
        fails = re.findall(r"Failed Checks: (.*)\n\s*File: \"([^\"]*)\", line (\d+), in (\S+)", blk)
        r.failed_checks = [(d.strip(), "%s:%s" % (os.path.basename(f), l), fn) for d, f, l, fn in fails]
        if "CBMC timed out" in blk or "timed out" in blk.lower() and not m:
            r.status, r.reason = "undecided", "timeout"
        elif m and m.group(1) == "SUCCESSFUL":
            if r.cover_total and r.cover_sat < r.cover_total:
                r.status, r.reason = "undecided", "vacuity witness not satisfied (cover unreachable)"
            else:
                r.status = "holds"
        elif m and m.group(1) == "FAILED":
            unwind = [f for f in r.failed_checks if "unwinding assertion" in f[0]]
            real = [f for f in r.failed_checks if "unwinding assertion" not in f[0]]
            if "Status: ERROR" in blk or "out of memory" in blk.lower() or "CBMC failed" in blk:
                r.status, r.reason = "undecided", "cbmc error/oom"
            elif real:
                r.status = "violated"
            elif unwind:
                r.status, r.reason = "undecided", "unwinding assertion failed (bound too small)"
            elif "timed out" in blk.lower():
                r.status, r.reason = "undecided", "timeout"
            else:
                r.status, r.reason = "undecided", "FAILED without failed checks (%s)" % blk[-200:].replace("\n", " ")
        else:
            r.status, r.reason = "undecided", "no verdict in output"
        results[short] = r
    for n in names:
        if n not in results:
            r = Result(n)
            r.reason = "harness produced no output block (timeout, crash or not compiled)"
            results[n] = r
    return results


def rss_watchdog(stop, killed, cap_kb=RSS_CAP_KB):
    """Kill cbmc children above the RSS cap (never the kani driver itself)."""
    while not stop.wait(5.0):
        try:
            out = subprocess.check_output(["ps", "-eo", "pid,rss,comm"], text=True)
        except Exception:
            continue
        for line in out.splitlines()[1:]:
            parts = line.split()
            if len(parts) >= 3 and parts[2].startswith("cbmc") and int(parts[1]) > cap_kb:
                try:
                    os.kill(int(parts[0]), signal.SIGKILL)
                    killed.append(int(parts[0]))
                except Exception:
                    pass


def kani_cmd(scratch, names, cap, jobs, extra=(), tail=()):
    cmd = ["cargo", "kani", "--target-dir", os.path.join(scratch, "kt"),
           "--no-default-features", "--lib",
           "-Z", "stubbing", "-Z", "unstable-options",
           "--no-overflow-checks", "--output-format", "terse",
           "--harness-timeout", "%ds" % cap]
    if jobs > 1:
        cmd += ["-j", str(jobs)]
    cmd += list(extra)
    for n in names:
        cmd += ["--harness", n]
    cmd += list(tail)   # --cbmc-args must come last
    return cmd


def run_kani(scratch, names, cap, jobs, logpath, extra=(), rss_cap_kb=RSS_CAP_KB, tail=()):
    cmd = kani_cmd(scratch, names, cap, jobs, extra, tail)
    env = dict(os.environ)
    env["CARGO_NET_OFFLINE"] = "true"
    env.pop("RUSTUP_TOOLCHAIN", None)
    stop = threading.Event()
    killed = []
    th = threading.Thread(target=rss_watchdog, args=(stop, killed, rss_cap_kb), daemon=True)
    th.start()
    t0 = time.time()
    with open(logpath, "w") as lf:
        lf.write("$ " + " ".join(cmd) + "\n")
        lf.flush()
        p = subprocess.Popen(cmd, cwd=scratch, env=env, stdout=lf, stderr=subprocess.STDOUT,
                             start_new_session=True)
        overall = cap * max(1, (len(names) + jobs - 1) // jobs) + 600
        try:
            p.wait(timeout=overall)
        except subprocess.TimeoutExpired:
            os.killpg(p.pid, signal.SIGKILL)
            p.wait()
    stop.set()
    text = open(logpath, errors="replace").read()
    return p.returncode, text, time.time() - t0, killed


# --------------------------------------------------------------------------------------
# Counterexample replay (Kani concrete playback -> native test in the scratch copy)
# --------------------------------------------------------------------------------------

PLAYBACK_RE = re.compile(r"Concrete playback unit test for `([^`]*)`:\s*```\s*(.*?)```", re.S)


def concrete_playback_batch(scratch, hs, cap, workdir, wanted_by_name=None):
    """Ask Kani for the concrete values of every counterexample (`--concrete-playback` is
    incompatible with -j, so one Kani process per harness, up to 4 at a time; the build is shared).
    Returns {harness name: unit test text}."""
    from concurrent.futures import ThreadPoolExecutor
    out = {}
    wanted_by_name = wanted_by_name or {}

    def one(h):
        logpath = os.path.join(workdir, "playback_%s.log" % h.name)
        _rc, text, _t, _k = run_kani(scratch, [h.name], cap, 1, logpath,
                                     extra=["-Z", "concrete-playback", "--concrete-playback", "print"],
                                     rss_cap_kb=14 * 1024 * 1024,
                                     tail=["--cbmc-args", "--slice-formula"])
        tests = [m.group(2).strip() + "\n" for m in PLAYBACK_RE.finditer(text)
                 if m.group(1).split("::")[-1] == h.name]
        # Kani prints one test per failed check: prefer the one generated for a check that is
        # part of the verdict (not an ignored allocator-model assertion)
        wanted = wanted_by_name.get(h.name, [])
        for t in tests:
            if any(w and w[:60] in t for w in wanted):
                return h.name, t
        artefact = ("rust_dealloc", "free argument", "double free", "unchecked_mul")
        for t in tests:
            head = t.split("#[test]")[0]
            if not any(a in head for a in artefact):
                return h.name, t
        return h.name, (tests[0] if tests else None)

    with ThreadPoolExecutor(max_workers=4) as ex:
        for name, test in ex.map(one, hs):
            if test:
                out[name] = test
    return out


def native_replay_batch(items, profile_release=False):
    """items: list of (harness, playback test source). Runs every playback test natively on a
    fresh scratch copy WITHOUT model substitution (real BTreeMap, real libm, no stubs applied).
    Returns {harness name: (reproduced: bool|None, output tail)}."""
    res = {}
    if not items:
        return res
    scratch = make_scratch("replay")
    try:
        files = sorted(set(h.file for h, _t in items))
        inject(scratch, files, btree=False)
        for h, test_src in items:
            tgt = os.path.join(scratch, h.target)
            s = open(tgt).read()
            marker = "include!(\"%s\");\n" % h.file
            s = s.replace(marker, marker + "\n" + test_src + "\n", 1)
            open(tgt, "w").write(s)
        env = dict(os.environ)
        env["CARGO_NET_OFFLINE"] = "true"
        env["CARGO_TARGET_DIR"] = os.path.join(scratch, "pt")
        env["RUST_MIN_STACK"] = "268435456"
        if profile_release:
            # the release profile users run: optimised, no debug assertions, wrapping overflow
            env["CARGO_PROFILE_TEST_OPT_LEVEL"] = "3"
            env["CARGO_PROFILE_TEST_DEBUG_ASSERTIONS"] = "false"
            env["CARGO_PROFILE_TEST_OVERFLOW_CHECKS"] = "false"
        for h, test_src in items:
            mt = re.search(r"fn (kani_concrete_playback_\w+)", test_src)
            tname = mt.group(1) if mt else "kani_concrete_playback"
            cmd = ["cargo", "kani", "playback", "-Z", "concrete-playback", "--no-default-features",
                   "--features", "with_plain", "--lib", "--", tname]
            try:
                p = subprocess.run(cmd, cwd=scratch, env=env, stdout=subprocess.PIPE,
                                   stderr=subprocess.STDOUT, text=True, timeout=1500)
                out = p.stdout
            except subprocess.TimeoutExpired:
                res[h.name] = (None, "native replay timed out")
                continue
            ran = re.search(r"test result: (\w+)\. (\d+) passed; (\d+) failed", out)
            if "concrete_playback.rs" in out and "det vals" in out:
                # Kani's playback ran out of / misread its value list: not a reproduction
                res[h.name] = (None, "playback value list misaligned: " + out[-3000:])
            elif ran and int(ran.group(3)) > 0:
                res[h.name] = (True, out[-12000:])
            elif ran and int(ran.group(2)) > 0:
                res[h.name] = (False, out[-3000:])
            elif "running 1 test" in out and re.search(r"signal: \d+", out):
                # the test process died (abort / stack overflow / segfault): a crash of the real
                # code on the replayed input is a reproduction of a panic-freedom violation
                res[h.name] = (True, out[-12000:])
            else:
                res[h.name] = (None, out[-3000:])
        return res
    finally:
        shutil.rmtree(scratch, ignore_errors=True)


def native_replay(h, test_src, profile_release=False):
    r = native_replay_batch([(h, test_src)], profile_release)
    return r.get(h.name, (None, ""))


# --------------------------------------------------------------------------------------
# Known findings
# --------------------------------------------------------------------------------------

def load_known():
    if not os.path.exists(KNOWN):
        return []
    return json.load(open(KNOWN)).get("findings", [])


def match_known(prop, h, res, known):
    """A finding is keyed by property + harness + (substring of) the failed check description."""
    for k in known:
        if k.get("status") != "open":
            continue
        if k.get("property") != prop or k.get("harness") != h.name:
            continue
        labels = k.get("labels") or [k.get("label", "")]
        descs = [d for d, _loc, _fn in res.failed_checks]
        # every failed check must be explained by a listed label; otherwise it is something new
        if descs and all(any(lb and lb in d for lb in labels) for d in descs):
            return k
    return None


# --------------------------------------------------------------------------------------
# Main check
# --------------------------------------------------------------------------------------

def select(reg, prop, tier):
    hs = [h for h in reg if h.prop == prop]
    if tier == "quick":
        hs = [h for h in hs if h.tier == "quick"]
    return hs


def run_check(prop, tier, seed, extra_engines=None, only=None):
    t0 = time.time()
    reg = load_registry()
    hs = select(reg, prop, tier)
    if only:
        hs = [h for h in hs if any(h.name == o or re.search(o, h.name) for o in only)]
    known = load_known()
    workdir = tempfile.mkdtemp(prefix="geodesy-verif-logs.%s." % prop,
                               dir=os.environ.get("VERIF_SCRATCH") or tempfile.gettempdir())
    violations = []
    known_hits = []
    inconclusive = []
    results = {}
    sha = src_tree_sha(REPO)
    scratch = None
    kani_wall = 0.0
    try:
        if hs:
            scratch = make_scratch(prop)
            files = sorted(set(h.file for h in hs))
            btree = any(h.attrs.get("btree", "yes") != "no" for h in hs)
            caps = [int(h.attrs["btree_cap"]) for h in hs if "btree_cap" in h.attrs]
            try:
                inject(scratch, files, btree=btree, btree_cap=max(caps) if caps else None)
            except RuntimeError as e:
                log("INCONCLUSIVE: %s" % e)
                inconclusive.append(str(e))
                hs_run = []
            else:
                hs_run = hs
            if hs_run:
                # group by cap so that one cargo-kani invocation serves harnesses of equal cap
                names = [h.name for h in hs_run]
                cap = max(h.cap(tier) for h in hs_run)
                jobs = min(NCPU, len(names))
                # order permuted by seed (verdicts do not depend on it)
                rot = seed % len(names)
                names = names[rot:] + names[:rot]
                logpath = os.path.join(workdir, "kani.log")
                # harnesses marked nomem=yes run in a second invocation without CBMC's pointer /
                # allocator checks (they decide a functional assertion on a path whose drop glue
                # trips allocator-model artefacts of the stubbed front end; see DESIGN 9.2)
                nomem = [h.name for h in hs_run if h.attrs.get("nomem") == "yes"]
                names = [n for n in names if n not in nomem]
                text, kani_wall, killed = "", 0.0, []
                if names:
                    rc, text, kani_wall, killed = run_kani(scratch, names, cap, jobs, logpath)
                if nomem:
                    rc2, text2, w2, k2 = run_kani(scratch, nomem, cap, min(NCPU, len(nomem)),
                                                  os.path.join(workdir, "kani_nomem.log"),
                                                  extra=["--no-memory-safety-checks"])
                    text += "\n" + text2
                    kani_wall += w2
                    killed += k2
                    names = names + nomem
                if "error: could not compile" in text or re.search(r"^error(\[E\d+\])?:", text, re.M) and "Checking harness" not in text:
                    tail = "\n".join([l for l in text.splitlines() if l.startswith("error")][:10])
                    log("INCONCLUSIVE: scratch build with harnesses failed:\n" + tail)
                    inconclusive.append("build failed: " + tail[:500])
                    results = {}
                else:
                    results = parse_kani_output(text, names)
                    # second pass: harnesses that ran out of memory under the parallel cap are
                    # re-run two at a time with a 28 GB cap (a failing property often needs
                    # more memory than the proof of the same property)
                    oom = [n for n in names if results[n].status == "undecided" and "oom" in results[n].reason]
                    if oom:
                        log("re-running %d harness(es) that hit the memory cap, 2 at a time: %s" % (len(oom), " ".join(oom)))
                        logpath2 = os.path.join(workdir, "kani_oom_retry.log")
                        _rc, text2, w2, _k = run_kani(scratch, oom, cap, min(2, len(oom)), logpath2,
                                                      rss_cap_kb=28 * 1024 * 1024)
                        kani_wall += w2
                        res2 = parse_kani_output(text2, oom)
                        for n in oom:
                            results[n] = res2[n]
        # ---- judge
        byname = {h.name: h for h in hs}
        to_replay = []
        for name, r in sorted(results.items()):
            h = byname.get(name)
            if h is None:
                continue
            if r.status == "violated" and h.attrs.get("ignore") == "dealloc":
                # constructor-level harnesses with a stubbed front end: the half-built operator
                # is dropped on the constructor's error paths after having been moved through
                # `Result`s byte-wise, which CBMC's allocator model flags (pointer provenance lost
                # in the byte copy). These assertions of Kani's C runtime are not the property.
                rest = [f for f in r.failed_checks
                        if not (f[2] == "__rust_dealloc" or "rust_dealloc" in f[0] or "free argument" in f[0]
                                or "double free" in f[0] or "unchecked_mul" in f[0])]
                if not rest:
                    r.status = "holds"
                    r.reason = "allocator-model assertions of the drop glue ignored (ignore=dealloc)"
                r.failed_checks = rest or r.failed_checks
            expect = h.attrs.get("expect", "holds")
            if expect == "violated":
                # reachability / sanity twin: must come back violated
                if r.status == "violated":
                    r.status = "holds"
                    r.reason = "sanity twin violated as required"
                elif r.status == "holds":
                    r.status = "undecided"
                    r.reason = "sanity twin unexpectedly passed (harness vacuous?)"
                    inconclusive.append("%s: sanity twin passed" % name)
                continue
            if r.status == "violated":
                k = match_known(prop, h, r, known)
                if k:
                    known_hits.append((h, r, k))
                    continue
                to_replay.append((h, r))
            elif r.status == "undecided":
                if h.attrs.get("may_timeout") == "yes" and ("timeout" in r.reason or "oom" in r.reason):
                    pass  # reported as undecided in the evidence, not counted as pass, not fatal
                else:
                    inconclusive.append("%s: %s" % (name, r.reason))
        if to_replay:
            log("replaying %d counterexample(s) natively" % len(to_replay))
            tests = concrete_playback_batch(scratch, [h for h, _r in to_replay],
                                            max(h.cap(tier) for h, _r in to_replay), workdir,
                                            {h.name: [f[0] for f in r.failed_checks] for h, r in to_replay})
            native = [(h, tests[h.name]) for h, _r in to_replay
                      if h.name in tests and h.attrs.get("replay", "native") == "native"]
            dev = native_replay_batch(native)
            rel = native_replay_batch([(h, t) for h, t in native if dev.get(h.name, (None, ""))[0]],
                                      profile_release=True)
            for h, r in to_replay:
                rep_dir = os.path.join(REPLAY_DIR, prop)
                os.makedirs(rep_dir, exist_ok=True)
                rep_path = os.path.join(rep_dir, "%s.json" % h.name)
                reproduced, out = dev.get(h.name, (None, "no playback test produced by Kani"))
                rel_rep = rel.get(h.name, (None, ""))[0]
                rec = {"property": prop, "harness": h.name, "harness_file": os.path.relpath(h.file, VERIF),
                       "target": h.target, "failed_checks": r.failed_checks,
                       "playback_test": tests.get(h.name), "native_dev_reproduced": reproduced,
                       "native_release_reproduced": rel_rep,
                       "native_output_tail": (out or "")[-3000:], "repo_src_sha256": sha}
                json.dump(rec, open(rep_path, "w"), indent=1)
                if h.attrs.get("replay", "native") == "model" or reproduced:
                    violations.append((h, r, rep_path))
                else:
                    r.status = "undecided"
                    r.reason = "counterexample did not reproduce natively (encoding/stub suspect)"
                    inconclusive.append("%s: counterexample not reproduced" % h.name)
        model_validation = None
        if hs and tier == "thorough" and any(h.attrs.get("btree", "yes") != "no" for h in hs):
            ok, what = validate_models()
            model_validation = what
            log("model validation: " + what)
            if not ok:
                inconclusive.append("M-BTREE validation failed: " + what)
        extra = []
        if extra_engines:
            for eng in extra_engines:
                er = eng(prop, tier, seed, workdir)
                extra.append(er)
                for v in er.get("violations", []):
                    violations.append((None, None, v))
                for kf in er.get("known", []):
                    known_hits.append((None, None, kf))
                inconclusive += er.get("inconclusive", [])
        wall = time.time() - t0
        write_evidence(prop, tier, seed, hs, results, extra, violations, known_hits, inconclusive,
                       sha, wall, kani_wall, partial=bool(only))
        # ---- report
        for h, r, k in known_hits:
            what = k.get("summary", "") if isinstance(k, dict) else str(k)
            log("KNOWN-FINDING: property=%s %s" % (prop, what))
        for h, r, path in violations:
            log("VIOLATION property=%s replay=%s" % (prop, path))
        n_hold = sum(1 for r in results.values() if r.status == "holds")
        n_und = sum(1 for r in results.values() if r.status == "undecided")
        log("%s tier=%s: %d harnesses, %d hold, %d undecided, %d violations, %d known; %.0fs"
            % (prop, tier, len(results), n_hold, n_und, len(violations), len(known_hits), wall))
        for name, r in sorted(results.items()):
            log("  %-44s %-9s %6.1fs checks=%d %s" % (name, r.status, r.time_s, r.checks, r.reason))
        if violations:
            return 1
        if inconclusive:
            for i in inconclusive:
                log("INCONCLUSIVE: " + i)
            return 2
        return 0
    finally:
        if scratch and not os.environ.get("VERIF_KEEP"):
            shutil.rmtree(scratch, ignore_errors=True)
        if not os.environ.get("VERIF_KEEP"):
            shutil.rmtree(workdir, ignore_errors=True)
        else:
            log("kept: %s %s" % (scratch, workdir))


def harness_source(h):
    """Extract the text of the harness function for the evidence samples."""
    s = open(h.file).read()
    i = s.find("fn %s(" % h.name)
    if i < 0:
        return ""
    j = s.find("\n}\n", i)
    return s[i:j + 2] if j > 0 else s[i:i + 1500]


def reachable_functions(h):
    """Functions of the repo named in the harness body (best-effort static listing)."""
    body = harness_source(h)
    names = set(re.findall(r"\b([a-z_][a-z0-9_]*(?:::[a-z_][a-z0-9_]*)*)\s*\(", body))
    skip = {"assert", "kani::any", "kani::assume", "kani::cover", "Some", "Ok", "Err", "if", "while", "for",
            "match", "std::mem::forget", "core::mem::forget", "fn", "unsafe"}
    return sorted(n for n in names if n not in skip and not n.startswith("kani"))


def write_evidence(prop, tier, seed, hs, results, extra, violations, known_hits, inconclusive, sha, wall, kani_wall,
                   partial=False):
    os.makedirs(EVIDENCE_DIR, exist_ok=True)
    per = []
    total_checks = 0
    discharged = 0
    solver_s = 0.0
    for h in hs:
        r = results.get(h.name)
        if r is None:
            continue
        total_checks += r.checks
        if r.status == "holds":
            discharged += r.checks
        solver_s += r.time_s
        per.append({
            "harness": h.name, "file": os.path.relpath(h.file, VERIF), "appended_to": h.target,
            "verdict": r.status, "reason": r.reason, "cbmc_checks": r.checks,
            "failed_checks": r.failed_checks[:10],
            "cover_satisfied": "%d/%d" % (r.cover_sat, r.cover_total),
            "verification_time_s": r.time_s, "sat_variables": r.vars, "sat_clauses": r.clauses,
            "bound": h.attrs.get("bound", ""), "stubs": h.attrs.get("stubs", ""),
            "functions": h.attrs.get("fns", "") or ", ".join(reachable_functions(h)),
            "note": h.attrs.get("note", ""),
        })
    decided = [p for p in per if p["verdict"] == "holds"]
    samples = []
    for h in hs[:3]:
        samples.append({"harness": h.name, "obligation_source": harness_source(h)[:2500]})
    n_oblig = len(per)
    n_queries = total_checks
    for er in extra:
        n_oblig += er.get("obligations", 0)
        n_queries += er.get("queries", 0)
        solver_s += er.get("solver_s", 0.0)
        samples += er.get("samples", [])[:3]
    n_dis = len(decided) + sum(er.get("discharged", 0) for er in extra)
    cov = {
        "evaluations": max(1, n_queries),
        "distinct_nontrivial": n_dis,
        "rule": "one evaluation = one CBMC property (assertion, panic, bounds, overflow, unwinding or cover check) "
                "or one SMT query decided over all inputs within the stated bound; distinct_nontrivial = number of "
                "distinct obligations (Kani harnesses / Engine-S queries) whose every check was decided 'holds' and "
                "whose reachability witness (kani::cover / sat twin) was satisfied",
        "samples": samples or [{"note": "no obligations selected"}],
        "obligations": n_oblig,
        "discharged": n_dis,
        "undecided": [p["harness"] + ": " + p["reason"] for p in per if p["verdict"] == "undecided"],
        "violated": [p["harness"] for p in per if p["verdict"] == "violated"],
        "known_findings_reported": [(k.get("summary") if isinstance(k, dict) else str(k)) for _h, _r, k in known_hits],
        "solver_time_s": round(solver_s, 1),
        "kani_wall_s": round(kani_wall, 1),
        "repo_src_sha256": sha,
        "checker_cmd": "cargo kani -Z stubbing -Z unstable-options --no-overflow-checks --output-format terse "
                       "--harness-timeout <cap> -j N --harness <names> (Kani 0.68.0 / CBMC 6.11.0 / cadical)",
        "harnesses": per,
        "engines": [er.get("engine") for er in extra],
        "engine_details": extra,
        "exhaustive": False,
    }
    ev = {
        "property_id": prop, "tier": tier, "seed": seed, "level": "model_checking",
        "coverage": cov,
        "assumptions": assumptions_for(prop, hs),
        "wall_s": round(wall, 1),
        "violations": len(violations),
    }
    fname = "%s.partial.json" % prop if partial else "%s.json" % prop
    json.dump(ev, open(os.path.join(EVIDENCE_DIR, fname), "w"), indent=1)


def assumptions_for(prop, hs):
    a = ["Kani 0.68 MIR->GOTO translation and CBMC 6.11 bit-precise float/bit-vector encoding (dev profile semantics)",
         "every verdict is bounded: see 'bound' per harness; unwinding assertions are on, a failed one is 'undecided'",
         "float NaN/overflow *CBMC* checks are off (--no-overflow-checks); Rust's own integer overflow/div-by-zero/"
         "index/unwrap panics are checked"]
    stubs = sorted(set(s.strip() for h in hs for s in h.attrs.get("stubs", "").split(",") if s.strip()))
    if stubs:
        a.append("stubs/models in force: " + ", ".join(stubs) + " (see DESIGN.md section 1.2)")
    if any(h.attrs.get("btree", "yes") != "no" for h in hs):
        a.append("M-BTREE: std BTreeMap/BTreeSet replaced by the sorted-Vec model models/verif_btree.rs in the "
                 "scratch copy (validated by the repo's unit tests: `bin/check X --validate-models`, run "
                 "automatically in the thorough tier)")
    return a


def main(argv):
    import argparse
    ap = argparse.ArgumentParser()
    ap.add_argument("prop")
    ap.add_argument("--tier", default=os.environ.get("VERIF_TIER", "quick"))
    ap.add_argument("--replay")
    ap.add_argument("--only", action="append")
    ap.add_argument("--validate-models", action="store_true")
    args = ap.parse_args(argv)
    if args.validate_models:
        ok, what = validate_models()
        log(what)
        return 0 if ok else 2
    seed = int(os.environ.get("VERIF_SEED", "0") or 0)
    if args.replay:
        return do_replay(args.prop, args.replay)
    engines = []
    try:
        sys.path.insert(0, os.path.join(VERIF, "lib"))
        import engines as _e
        engines = _e.engines_for(args.prop)
    except ImportError:
        pass
    return run_check(args.prop, args.tier, seed, engines, args.only)


def do_replay(prop, path):
    rec = json.load(open(path))
    if rec.get("engine") == "S":
        sys.path.insert(0, os.path.join(VERIF, "lib"))
        import engines as _e
        rec["_path"] = os.path.abspath(path)
        return _e.replay(rec)
    reg = load_registry()
    h = [x for x in reg if x.name == rec["harness"]]
    if not h or not rec.get("playback_test"):
        log("cannot replay: harness or playback test missing")
        return 2
    rep, out = native_replay(h[0], rec["playback_test"])
    log(out[-12000:])
    if rep:
        log("REPRODUCED property=%s harness=%s" % (prop, rec["harness"]))
        return 1
    log("not reproduced on the current tree")
    return 0


if __name__ == "__main__":
    sys.exit(main(sys.argv[1:]))
