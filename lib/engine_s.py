#!/usr/bin/env python3-vt
"""Engine S — source -> SMT translation of the `str` method chains of the tokenizer.

`Tokenize::normalize` is one expression: ~35 chained &str methods. Kani does not finish it on
4 symbolic bytes, so the chain is read from the CURRENT /repo/src/token/mod.rs (regenerated on
every run) and every method is given a definitional bounded model: a string is (len, c[0..M))
over 8-bit code units, each method is an "emit network" (per input position a guarded list of
output units, output offsets as prefix sums). Queries are quantifier-free bit-vector formulas
decided by z3 (one solver, push/pop); each is dumped as SMT-LIB2 and cross-checked with cvc5 in
the thorough tier. A counterexample is replayed through the native `Tokenize` methods (a
generated #[test] in a scratch copy of /repo) before it is reported.

Also translated: the macro-inversion predicate of `Op::op` (`let inverted = ...;` in
src/op/mod.rs) — boolean combinations of contains/ends_with/starts_with/word-equality.

Usage: engine_s.py --prop C16|C03 --tier quick|thorough --out result.json
"""
import json
import os
import re
import shutil
import subprocess
import sys
import tempfile
import time

from z3 import (And, BitVec, BitVecVal, BoolVal, If, Not, Or, Solver, ULE, ULT, sat, unsat, simplify, is_true)

REPO = os.environ.get("VERIF_REPO", "/repo")
W = 8


def bv(n):
    return BitVecVal(n, W)


class SStr:
    def __init__(self, chars, length):
        self.c = chars
        self.n = length

    @property
    def M(self):
        return len(self.c)


def emit(parts, m_out):
    off = bv(0)
    cells = [[] for _ in range(m_out)]
    for cond, chars in parts:
        for j, ch in enumerate(chars):
            for t in range(m_out):
                cells[t].append((And(cond, off + j == t), ch))
        off = If(cond, off + len(chars), off)
    out = []
    for t in range(m_out):
        e = BitVecVal(0, 8)
        for cnd, ch in reversed(cells[t]):
            e = If(cnd, ch, e)
        out.append(e)
    return SStr(out, off)


def lit(s):
    return [BitVecVal(b, 8) for b in s.encode()]


def replace_all(s, p, r):
    """str::replace: left-to-right, non-overlapping"""
    p = p.encode()
    rb = lit(r)
    m = len(p)
    M = s.M
    inb = [ULT(bv(i), s.n) for i in range(M)]
    raw = []
    for i in range(M):
        if i + m > M:
            raw.append(BoolVal(False))
            continue
        raw.append(And(ULE(bv(i + m), s.n), *[s.c[i + j] == p[j] for j in range(m)]))
    start = []
    for i in range(M):
        prev = [start[i - k] for k in range(1, m) if i - k >= 0]
        start.append(And(raw[i], Not(Or(*prev)) if prev else True))
    parts = []
    for i in range(M):
        consumed = Or(*[start[i - k] for k in range(1, m) if i - k >= 0]) if m > 1 and i > 0 else BoolVal(False)
        parts.append((start[i], rb))
        parts.append((And(inb[i], Not(start[i]), Not(consumed)), [s.c[i]]))
    cap = M if len(rb) <= m else min(M * len(rb), M + (M // m) * (len(rb) - m))
    return emit(parts, cap)


WS = [0x20, 0x0a, 0x09, 0x0d]


def is_ws(ch):
    return Or(*[ch == w for w in WS])


def trim_pred(s, pred):
    M = s.M
    inb = [ULT(bv(i), s.n) for i in range(M)]
    non = [And(inb[i], Not(pred(s.c[i]))) for i in range(M)]
    before = []
    acc = BoolVal(False)
    for i in range(M):
        acc = Or(acc, non[i])
        before.append(acc)
    after = [None] * M
    acc = BoolVal(False)
    for i in reversed(range(M)):
        acc = Or(acc, non[i])
        after[i] = acc
    return emit([(And(inb[i], before[i], after[i]), [s.c[i]]) for i in range(M)], M)


def collapse_ws(s):
    """split_whitespace().collect::<Vec<_>>().join(" ")"""
    M = s.M
    inb = [ULT(bv(i), s.n) for i in range(M)]
    non = [And(inb[i], Not(is_ws(s.c[i]))) for i in range(M)]
    after = [None] * M
    acc = BoolVal(False)
    for i in reversed(range(M)):
        acc = Or(acc, non[i])
        after[i] = acc
    parts = []
    for i in range(M):
        parts.append((non[i], [s.c[i]]))
        if i > 0:
            parts.append((And(inb[i], is_ws(s.c[i]), non[i - 1], after[i]), [BitVecVal(0x20, 8)]))
    return emit(parts, M)


def parse_chain():
    src = open(os.path.join(REPO, "src/token/mod.rs")).read()
    mm = re.search(r"fn normalize\(&self\) -> String \{(.*?)\n    \}", src, re.S)
    if not mm:
        raise ValueError("fn normalize not found")
    body = mm.group(1)
    body = re.sub(r"//[^\n]*", "", body)
    if re.search(r"\b(for|while|loop|if|let|match)\b", body):
        raise ValueError("normalize is no longer a single method chain")
    calls = re.findall(
        r"\.\s*([a-z_]+)(?:::<[^()]*>)?\(\s*((?:\"(?:[^\"\\]|\\.)*\"|'(?:[^'\\]|\\.)*'|[^()])*)\)", body)
    ops = []
    i = 0

    def un(a):
        return a.strip()[1:-1].replace("\\n", "\n").replace("\\r", "\r").replace("\\t", "\t")
    while i < len(calls):
        name, args = calls[i]
        if name == "as_ref":
            pass
        elif name == "trim":
            ops.append(("trim",))
        elif name == "trim_matches":
            ops.append(("trimc", un(args)))
        elif name == "replace":
            a, b = re.findall(r"\"(?:[^\"\\]|\\.)*\"|'(?:[^'\\]|\\.)*'", args)
            ops.append(("replace", un(a), un(b)))
        elif name == "split_whitespace":
            if not (calls[i + 1][0] == "collect" and calls[i + 2][0] == "join" and calls[i + 2][1].strip() == '" "'):
                raise ValueError("unsupported use of split_whitespace")
            ops.append(("collapse",))
            i += 2
        elif name == "to_string":
            pass
        else:
            raise ValueError("unsupported method in normalize chain: " + name)
        i += 1
    return ops


def normalize(s, ops, alphabet):
    for op in ops:
        if op[0] == "trim":
            s = trim_pred(s, is_ws)
        elif op[0] == "trimc":
            ch = ord(op[1])
            s = trim_pred(s, lambda c, ch=ch: c == ch)
        elif op[0] == "collapse":
            s = collapse_ws(s)
        elif op[0] == "replace":
            # a pattern containing a unit outside the alphabet cannot match (sound pruning);
            # the alphabet is closed under the replacement texts that can be produced
            if alphabet is not None and not all(b in alphabet for b in op[1].encode()):
                continue
            s = replace_all(s, op[1], op[2])
    return s


def closure_alphabet(base, ops):
    """Units that can appear after any prefix of the chain (replacement texts add units)."""
    alpha = set(base)
    changed = True
    while changed:
        changed = False
        for op in ops:
            if op[0] == "replace" and all(b in alpha for b in op[1].encode()):
                for b in op[2].encode():
                    if b not in alpha:
                        alpha.add(b)
                        changed = True
    return alpha


def sym_string(prefix, n_max, alphabet, solver):
    cs = [BitVec("%s%d" % (prefix, i), 8) for i in range(n_max)]
    n = BitVec(prefix + "_len", W)
    solver.add(ULE(n, n_max))
    for c in cs:
        solver.add(Or(*[c == a for a in alphabet]))
    return SStr(cs, n)


def str_eq(a, b):
    m = min(a.M, b.M)
    conds = [a.n == b.n]
    for i in range(m):
        conds.append(Or(Not(ULT(bv(i), a.n)), a.c[i] == b.c[i]))
    # lengths beyond the smaller capacity cannot be equal-and-valid
    conds.append(ULE(a.n, m))
    conds.append(ULE(b.n, m))
    return And(*conds)


def model_str(m, s):
    ln = m.eval(s.n, model_completion=True).as_long()
    return bytes(m.eval(c, model_completion=True).as_long() for c in s.c[:ln]).decode("utf-8", "replace")


def concrete(text, cap):
    b = text.encode()
    assert len(b) <= cap
    cs = [BitVecVal(x, 8) for x in b] + [BitVecVal(0, 8)] * (cap - len(b))
    return SStr(cs, bv(len(b)))


def eval_concrete(text, ops):
    """The encoding evaluated on a concrete input, one chain operation at a time (the result of
    each operation is decoded and re-encoded, which keeps the capacities small)."""
    cur = text.encode()
    for op in ops:
        s = normalize(SStr([BitVecVal(x, 8) for x in cur] or [BitVecVal(0, 8)], bv(len(cur))), [op], None)
        ln = simplify(s.n).as_long()
        cur = bytes(simplify(c).as_long() for c in s.c[:ln])
    return cur.decode("utf-8", "replace")


# --------------------------------------------------------------------------------------
# native side: run Tokenize methods / Op::op on concrete strings in a scratch copy
# --------------------------------------------------------------------------------------

def rust_lit(s):
    return '"' + "".join("\\u{%x}" % ord(ch) for ch in s) + '"'


def native_eval(kind, inputs):
    """kind = 'normalize' -> list of normalize(x); kind = 'macro_inv' -> behaviour of a macro step"""
    base = os.environ.get("VERIF_SCRATCH") or tempfile.gettempdir()
    d = tempfile.mkdtemp(prefix="geodesy-verif.S.", dir=base)
    try:
        subprocess.check_call(["rsync", "-a", "--exclude", "target", "--exclude", ".git", REPO + "/", d + "/"])
        lines = ["use geodesy::authoring::*;", "#[test]", "fn engine_s_native() {"]
        if kind == "normalize":
            lines.append("    let inputs: Vec<&str> = vec![%s];" % ", ".join(rust_lit(x) for x in inputs))
            lines.append('    for x in inputs { println!("ENGINE_S_OUT:{:?}", x.normalize()); }')
        else:
            # for each definition text: does the op built from it behave as addone inverted?
            lines.append("    let inputs: Vec<&str> = vec![%s];" % ", ".join(rust_lit(x) for x in inputs))
            lines.append("    for x in inputs {")
            lines.append("        let mut ctx = Minimal::default();")
            lines.append('        ctx.register_resource("a:a", "addone");')
            lines.append("        let r = match ctx.op(x) {")
            lines.append("            Ok(op) => { let mut d = [Coor4D([10., 0., 0., 0.])]; ctx.apply(op, Fwd, &mut d).unwrap(); format!(\"{}\", d[0][0]) }")
            lines.append('            Err(_) => "ERR".to_string(),')
            lines.append("        };")
            lines.append('        println!("ENGINE_S_OUT:{:?}", r);')
            lines.append("    }")
        lines.append("}")
        open(os.path.join(d, "tests", "engine_s_native.rs"), "w").write("\n".join(lines) + "\n")
        env = dict(os.environ)
        env["CARGO_TARGET_DIR"] = os.path.join(d, "tt")
        env["CARGO_NET_OFFLINE"] = "true"
        p = subprocess.run(["cargo", "test", "--offline", "--test", "engine_s_native", "--", "--nocapture"],
                           cwd=d, env=env, stdout=subprocess.PIPE, stderr=subprocess.STDOUT, text=True, timeout=1200)
        outs = re.findall(r'ENGINE_S_OUT:"((?:[^"\\]|\\.)*)"', p.stdout)
        outs = [bytes(o, "utf-8").decode("unicode_escape").encode("latin-1", "replace").decode("utf-8", "replace")
                if "\\" in o else o for o in outs]
        if len(outs) != len(inputs):
            return None, p.stdout[-2000:]
        return outs, ""
    finally:
        shutil.rmtree(d, ignore_errors=True)


# --------------------------------------------------------------------------------------
# obligations
# --------------------------------------------------------------------------------------

NAMEC = [ord("a"), ord("b")]
SEPS = [ord(x) for x in "=:,|"]


def wellformed(s, extra_seps=()):
    """The property's own restriction to well-formed definitions, as local constraints:
    the first and the last significant unit belong to a name or value; two separators are
    never adjacent, not even across white space; '$' is followed by a name unit."""
    M = s.M
    seps = SEPS + list(extra_seps)
    conds = []
    inb = [ULT(bv(i), s.n) for i in range(M)]
    isname = [Or(*[s.c[i] == a for a in NAMEC]) for i in range(M)]
    issep = [Or(*[s.c[i] == a for a in seps]) for i in range(M)]
    isws = [is_ws(s.c[i]) for i in range(M)]
    # first / last unit are name units (leading / trailing blanks are covered by the
    # insensitivity obligation)
    conds.append(ULT(bv(0), s.n))
    conds.append(isname[0])
    conds.append(Or(*[And(s.n == i + 1, isname[i]) for i in range(M)]))
    # no separator followed (possibly after white space) by another separator
    for i in range(M):
        for j in range(i + 1, M):
            between_ws = And(*[isws[k] for k in range(i + 1, j)]) if j > i + 1 else BoolVal(True)
            conds.append(Not(And(inb[j], issep[i], issep[j], between_ws)))
    # '$' must be followed directly by a name unit
    for i in range(M):
        nxt = And(inb[i + 1], isname[i + 1]) if i + 1 < M else BoolVal(False)
        conds.append(Or(Not(inb[i]), s.c[i] != ord("$"), nxt))
    return And(*conds)


def run_queries(prop, tier, workdir, only=None):
    t0 = time.time()
    res = {"engine": "S", "obligations": 0, "discharged": 0, "queries": 0, "solver_s": 0.0,
           "violations": [], "known": [], "inconclusive": [], "samples": [], "details": []}
    try:
        ops = parse_chain()
    except Exception as e:  # noqa
        res["inconclusive"].append("Engine S: cannot translate normalize: %s" % e)
        return res
    res["functions"] = ["Tokenize::normalize (%d chained operations read from src/token/mod.rs)" % len(ops)]

    # ---- translator validation: repo's own tokenizer test literals + a few extra, through both
    src = open(os.path.join(REPO, "src/token/mod.rs")).read()
    tests = src[src.find("mod tests"):]
    lits = [bytes(x, "utf-8").decode("unicode_escape") for x in re.findall(r'"((?:[^"\\]|\\.){1,40})"', tests)]
    lits = [x for x in lits if all(ord(ch) < 128 for ch in x) and len(x) <= 24 and x.count("<") + x.count(">") <= 2][:30]
    lits += ["a = b", ": :a", "a|b", " a\n:b=c , d |e", "a < b > c", "x $ y  $z", "inv a:b", "a:b inv"]
    native, err = native_eval("normalize", lits)
    if native is None:
        res["inconclusive"].append("Engine S: native validation run failed: " + err[-300:])
        return res
    bad = []
    for x, nat in zip(lits, native):
        try:
            enc = eval_concrete(x, ops)
        except Exception as e:  # noqa
            enc = "<encoding error %s>" % e
        if enc != nat:
            bad.append((x, nat, enc))
    res["translator_validation"] = {"inputs": len(lits), "disagreements": len(bad)}
    if bad:
        res["inconclusive"].append("Engine S: encoding disagrees with native normalize on %r" % (bad[:3],))
        return res

    def decide(name, build, n_max, replay):
        """build(solver) -> (formula whose satisfiability is a counterexample, witness extractor)"""
        if only and name != only:
            return
        res["obligations"] += 1
        S = Solver()
        tq = time.time()
        goal, extract = build(S)
        # vacuity guard: the assumptions alone must be satisfiable
        if S.check() != sat:
            res["inconclusive"].append("%s: assumptions unsatisfiable (vacuous obligation)" % name)
            return
        S.add(goal)
        smt2 = S.to_smt2()
        r = S.check()
        dt = time.time() - tq
        res["queries"] += 1
        res["solver_s"] += dt
        det = {"obligation": name, "bound": "strings of <= %d code units" % n_max, "z3": str(r), "seconds": round(dt, 1)}
        if tier == "thorough" and r != sat:
            p = os.path.join(workdir, name + ".smt2")
            open(p, "w").write("(set-logic QF_BV)\n" + smt2 if "set-logic" not in smt2 else smt2)
            try:
                c = subprocess.run(["cvc5", "--lang", "smt2", p], stdout=subprocess.PIPE, stderr=subprocess.STDOUT,
                                   text=True, timeout=1200)
                det["cvc5"] = c.stdout.strip().splitlines()[-1] if c.stdout.strip() else "no output"
                if "(error" in c.stdout or det["cvc5"] not in ("unsat",):
                    res["inconclusive"].append("%s: cvc5 cross-check says %s" % (name, det["cvc5"]))
            except Exception as e:  # noqa
                det["cvc5"] = "failed: %s" % e
        if r == unsat:
            res["discharged"] += 1
        elif r == sat:
            w = extract(S.model())
            det["witness"] = w
            ok, what = replay(w)
            det["native"] = what
            if ok is True:
                res["violations_raw"] = res.get("violations_raw", []) + [(name, w, what)]
            elif ok is False:
                res["inconclusive"].append("%s: solver witness %r does not reproduce natively (%s)" % (name, w, what))
            else:
                res["inconclusive"].append("%s: native replay failed (%s)" % (name, what))
        else:
            res["inconclusive"].append("%s: solver answered %s" % (name, r))
        res["details"].append(det)
        if len(res["samples"]) < 3:
            res["samples"].append(det)

    base = [ord(x) for x in "ab =|:,$\n"]
    alpha = sorted(closure_alphabet(base, ops))

    if prop == "C16":
        N = 7 if tier == "quick" else 9
        NI = 5 if tier == "quick" else 7   # the insertion obligation is ~10x more expensive per unit

        def idem(S):
            s0 = sym_string("c", N, base, S)
            S.add(wellformed(s0))
            s1 = normalize(s0, ops, alpha)
            s2 = normalize(s1, ops, alpha)
            return Not(str_eq(s1, s2)), lambda m: {"s": model_str(m, s0)}

        def replay_idem(w):
            out, err = native_eval("normalize", [w["s"]])
            if out is None:
                return None, err[-200:]
            out2, err = native_eval("normalize", [out[0]])
            if out2 is None:
                return None, err[-200:]
            return (out[0] != out2[0]), "normalize(s)=%r normalize(normalize(s))=%r" % (out[0], out2[0])
        decide("c16_normalize_idempotent", idem, N, replay_idem)

        def insens(S):
            # s' = s with one extra blank or newline inserted at a symbolic position that is at
            # either end or next to a separator / existing white space
            s0 = sym_string("c", NI, base, S)
            S.add(wellformed(s0))
            p = BitVec("p", W)
            S.add(ULE(p, s0.n))
            wsch = BitVec("wsch", 8)
            S.add(Or(wsch == 0x20, wsch == 0x0a))
            # a newline may only be inserted where the next unit is not ':' (that is the
            # continuation marker, a different construct)
            chars = []
            for i in range(NI + 1):
                e = BitVecVal(0, 8)
                if i < NI:
                    e = s0.c[i]
                prev = s0.c[i - 1] if i > 0 else BitVecVal(0, 8)
                chars.append(If(ULT(bv(i), p), e if i < NI else BitVecVal(0, 8), If(bv(i) == p, wsch, prev)))
            s1 = SStr(chars, s0.n + 1)
            seps_ws = SEPS + WS
            adj = [p == 0, p == s0.n]
            for i in range(NI):
                is_sw = Or(*[s0.c[i] == a for a in seps_ws])
                adj.append(And(ULT(bv(i), s0.n), is_sw, Or(p == i, p == i + 1)))
            S.add(Or(*adj))
            for i in range(NI):
                S.add(Not(And(wsch == 0x0a, p == i, ULT(bv(i), s0.n), s0.c[i] == ord(":"))))
                # a colon directly after a line break is the continuation marker; a blank between
                # the line break and that colon turns it into an ordinary separator (documented:
                # the marker is a colon at the START of a line), so that position is excluded
                if i > 0:
                    S.add(Not(And(p == i, ULT(bv(i), s0.n), s0.c[i] == ord(":"), s0.c[i - 1] == 0x0a)))
            a = normalize(s0, ops, alpha)
            b = normalize(s1, ops, alpha)
            return Not(str_eq(a, b)), lambda m: {"s": model_str(m, s0), "s_with_blank": model_str(m, s1)}

        def replay_insens(w):
            out, err = native_eval("normalize", [w["s"], w["s_with_blank"]])
            if out is None:
                return None, err[-200:]
            return (out[0] != out[1]), "normalize(s)=%r normalize(s')=%r" % (out[0], out[1])
        decide("c16_normalize_layout_insensitive", insens, NI, replay_insens)

        def cont(S):
            # a continuation colon at the start of a line: "x\n:y" normalizes like "x\ny"
            s0 = sym_string("c", N, base, S)
            S.add(wellformed(s0))
            p = BitVec("p", W)
            S.add(ULT(bv(0), p), ULT(p, s0.n))
            chars = []
            for i in range(N + 1):
                e = s0.c[i] if i < N else BitVecVal(0, 8)
                prev = s0.c[i - 1] if i > 0 else BitVecVal(0, 8)
                chars.append(If(ULT(bv(i), p), e, If(bv(i) == p, BitVecVal(ord(":"), 8), prev)))
            s1 = SStr(chars, s0.n + 1)
            # the unit before position p is a newline, the unit at p (after the colon) is a name unit
            S.add(Or(*[And(p == i + 1, s0.c[i] == 0x0a) for i in range(N - 1)]))
            S.add(Or(*[And(p == i, Or(*[s0.c[i] == a for a in NAMEC])) for i in range(1, N)]))
            a = normalize(s0, ops, alpha)
            b = normalize(s1, ops, alpha)
            return Not(str_eq(a, b)), lambda m: {"s": model_str(m, s0), "s_with_blank": model_str(m, s1)}
        decide("c16_normalize_continuation_colon", cont, N, replay_insens)

    if prop == "C03":
        # the macro-inversion predicate of Op::op against the tokenizer's notion of a modifier
        src = open(os.path.join(REPO, "src/op/mod.rs")).read()
        mm = re.search(r"let inverted = ((?:[^;\"]|\"(?:[^\"\\]|\\.)*\")*);", src)
        if not mm:
            res["inconclusive"].append("Engine S: `let inverted = ...;` not found in src/op/mod.rs")
            return res
        expr = mm.group(1)
        res["functions"].append("Op::op macro-inversion predicate: " + " ".join(expr.split()))
        N = 12 if tier == "quick" else 14
        alpha3 = [ord(x) for x in "a: inv=true"]

        def contains(s, pat):
            p = pat.encode()
            m = len(p)
            return Or(*[And(ULE(bv(i + m), s.n), *[s.c[i + j] == p[j] for j in range(m)]) for i in range(s.M - m + 1)]) \
                if s.M >= m else BoolVal(False)

        def ends_with(s, pat):
            p = pat.encode()
            m = len(p)
            return Or(*[And(s.n == i + m, *[s.c[i + j] == p[j] for j in range(m)]) for i in range(s.M - m + 1)]) \
                if s.M >= m else BoolVal(False)

        def starts_with(s, pat):
            p = pat.encode()
            m = len(p)
            return And(ULE(bv(m), s.n), *[s.c[j] == p[j] for j in range(m)]) if s.M >= m else BoolVal(False)

        def has_word(s, word):
            p = word.encode()
            m = len(p)
            alts = []
            for i in range(s.M - m + 1):
                left = BoolVal(True) if i == 0 else is_ws(s.c[i - 1])
                right = Or(s.n == i + m, is_ws(s.c[i + m])) if i + m < s.M else s.n == i + m
                alts.append(And(ULE(bv(i + m), s.n), left, right, *[s.c[i + j] == p[j] for j in range(m)]))
            return Or(*alts) if alts else BoolVal(False)

        def translate(expr, s):
            terms = []
            flat = " ".join(expr.split())
            # the flag looked up among the tokenized parameters, with the Flag value rule
            # (empty or "true"): `inv`, `inv=`, `inv=true` as a white-space delimited word
            m6 = re.fullmatch(r'def \.split_into_parameters\(\) \.get\("(\w+)"\) \.is_some_and\(\|(\w+)\| '
                              r'\2\.is_empty\(\) \|\| \2\.to_lowercase\(\) == "true"\)', flat)
            if m6:
                k = m6.group(1)
                return Or(has_word(s, k), has_word(s, k + "=true"), has_word(s, k + "="))
            for t in expr.split("||"):
                t = " ".join(t.split())
                m1 = re.fullmatch(r'def\.contains\("((?:[^"\\]|\\.)*)"\)', t)
                m2 = re.fullmatch(r'def\.ends_with\("((?:[^"\\]|\\.)*)"\)', t)
                m3 = re.fullmatch(r'def\.starts_with\("((?:[^"\\]|\\.)*)"\)', t)
                m4 = re.fullmatch(r'def\s*\.split_whitespace\(\)\s*\.any\(\|(\w+)\| \1 == "((?:[^"\\]|\\.)*)"\)', t)
                m5 = re.fullmatch(r'def == "((?:[^"\\]|\\.)*)"', t)
                if m1:
                    terms.append(contains(s, m1.group(1)))
                elif m2:
                    terms.append(ends_with(s, m2.group(1)))
                elif m3:
                    terms.append(starts_with(s, m3.group(1)))
                elif m4:
                    terms.append(has_word(s, m4.group(2)))
                elif m5:
                    terms.append(str_eq(s, concrete(m5.group(1), max(1, len(m5.group(1))))))
                else:
                    raise ValueError("unsupported term in inversion predicate: %r" % t)
            return Or(*terms)

        def build(S):
            s0 = sym_string("c", N, alpha3, S)
            # a normalized macro step: single blanks, no leading/trailing blank, exactly one macro
            # name "a:a" as a word, every other word is the flag `inv`
            S.add(ULT(bv(0), s0.n))
            S.add(Not(is_ws(s0.c[0])))
            S.add(And(*[Or(s0.n != i + 1, Not(is_ws(s0.c[i]))) for i in range(N)]))
            S.add(And(*[Not(And(ULT(bv(i + 1), s0.n), is_ws(s0.c[i]), is_ws(s0.c[i + 1]))) for i in range(N - 1)]))
            S.add(And(*[Or(Not(ULT(bv(i), s0.n)), s0.c[i] != 0x0a) for i in range(N)]))
            S.add(has_word(s0, "a:a"))
            # every word is either a:a or inv: characterised by word starts
            for i in range(N):
                ws_before = BoolVal(True) if i == 0 else is_ws(s0.c[i - 1])
                start = And(ULT(bv(i), s0.n), ws_before, Not(is_ws(s0.c[i])))

                def word_at(i, w):
                    p = w.encode()
                    m = len(p)
                    if i + m > N:
                        return BoolVal(False)
                    right = Or(s0.n == i + m, is_ws(s0.c[i + m])) if i + m < N else s0.n == i + m
                    return And(ULE(bv(i + m), s0.n), right, *[s0.c[i + j] == p[j] for j in range(m)])
                S.add(Or(Not(start), word_at(i, "a:a"), word_at(i, "inv"), word_at(i, "inv=true")))
            # exactly one occurrence of the macro name
            occ = [And(ULE(bv(i + 3), s0.n), s0.c[i] == ord("a"), s0.c[i + 1] == ord(":"), s0.c[i + 2] == ord("a"))
                   for i in range(N - 2)]
            for i in range(len(occ)):
                for j in range(i + 1, len(occ)):
                    S.add(Not(And(occ[i], occ[j])))
            try:
                pred = translate(expr, s0)
            except ValueError as e:
                res["inconclusive"].append("Engine S: %s" % e)
                pred = BoolVal(False)
            # at most one modifier word (a repeated flag is outside the property's grammar)
            starts_inv = []
            for i in range(N):
                wsb = BoolVal(True) if i == 0 else is_ws(s0.c[i - 1])
                starts_inv.append(And(ULE(bv(i + 3), s0.n), wsb, s0.c[i] == ord("i")) if i + 3 <= N else BoolVal(False))
            for i in range(N):
                for j in range(i + 1, N):
                    S.add(Not(And(starts_inv[i], starts_inv[j])))
            spec = Or(has_word(s0, "inv"), has_word(s0, "inv=true"))
            return pred != spec, lambda m: {"step": model_str(m, s0)}

        def replay(w):
            step = w["step"]
            # reference: the same step with the modifier as a suffix
            words = step.split()
            n_inv = sum(1 for x in words if x in ("inv", "inv=true"))
            outs, err = native_eval("macro_inv", [step])
            if outs is None:
                return None, err[-200:]
            want = "9" if n_inv >= 1 else "11"   # addone on 10: inverted -> 9, plain -> 11
            got = outs[0]
            return (got != want), "ctx.op(%r) with a:a=addone maps 10 to %s, expected %s" % (step, got, want)
        decide("c03_macro_inv_predicate", build, N, replay)

    res["wall_s"] = round(time.time() - t0, 1)
    return res


def main():
    import argparse
    ap = argparse.ArgumentParser()
    ap.add_argument("--prop", required=True)
    ap.add_argument("--tier", default="quick")
    ap.add_argument("--out", required=True)
    ap.add_argument("--only")
    a = ap.parse_args()
    workdir = tempfile.mkdtemp(prefix="engine-s.")
    try:
        r = run_queries(a.prop, a.tier, workdir, a.only)
    finally:
        shutil.rmtree(workdir, ignore_errors=True)
    json.dump(r, open(a.out, "w"), indent=1, default=str)


if __name__ == "__main__":
    main()
