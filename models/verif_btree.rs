//! Sorted-Vec models of BTreeMap / BTreeSet (verification only)
use std::borrow::Borrow;

#[derive(Debug, Clone)]
pub struct BTreeMap<K, V> {
    items: Vec<(K, V)>,
}
impl<K, V> Default for BTreeMap<K, V> {
    fn default() -> Self {
        BTreeMap { items: Vec::new() }
    }
}
impl<'a, K, V> IntoIterator for &'a BTreeMap<K, V> {
    type Item = (&'a K, &'a V);
    type IntoIter = std::iter::Map<std::slice::Iter<'a, (K, V)>, fn(&'a (K, V)) -> (&'a K, &'a V)>;
    fn into_iter(self) -> Self::IntoIter {
        fn split<'b, K, V>(kv: &'b (K, V)) -> (&'b K, &'b V) {
            (&kv.0, &kv.1)
        }
        self.items.iter().map(split as fn(&'a (K, V)) -> (&'a K, &'a V))
    }
}

impl<K: Ord, V> BTreeMap<K, V> {
    pub fn new() -> Self {
        BTreeMap { items: Vec::new() }
    }
    fn pos<Q: ?Sized + Ord>(&self, key: &Q) -> Result<usize, usize>
    where
        K: Borrow<Q>,
    {
        let mut i = 0;
        while i < self.items.len() {
            match self.items[i].0.borrow().cmp(key) {
                std::cmp::Ordering::Less => i += 1,
                std::cmp::Ordering::Equal => return Ok(i),
                std::cmp::Ordering::Greater => return Err(i),
            }
        }
        Err(i)
    }
    pub fn insert(&mut self, key: K, value: V) -> Option<V> {
        match self.pos(&key) {
            Ok(i) => Some(std::mem::replace(&mut self.items[i].1, value)),
            Err(i) => {
                self.items.insert(i, (key, value));
                None
            }
        }
    }
    pub fn get<Q: ?Sized + Ord>(&self, key: &Q) -> Option<&V>
    where
        K: Borrow<Q>,
    {
        match self.pos(key) {
            Ok(i) => Some(&self.items[i].1),
            Err(_) => None,
        }
    }
    pub fn contains_key<Q: ?Sized + Ord>(&self, key: &Q) -> bool
    where
        K: Borrow<Q>,
    {
        self.pos(key).is_ok()
    }
    pub fn remove<Q: ?Sized + Ord>(&mut self, key: &Q) -> Option<V>
    where
        K: Borrow<Q>,
    {
        match self.pos(key) {
            Ok(i) => Some(self.items.remove(i).1),
            Err(_) => None,
        }
    }
    pub fn iter(&self) -> impl DoubleEndedIterator<Item = (&K, &V)> {
        self.items.iter().map(|kv| (&kv.0, &kv.1))
    }
    pub fn into_keys(self) -> impl Iterator<Item = K> {
        self.items.into_iter().map(|kv| kv.0)
    }
    pub fn len(&self) -> usize {
        self.items.len()
    }
    pub fn is_empty(&self) -> bool {
        self.items.is_empty()
    }
    pub fn clear(&mut self) {
        self.items.clear()
    }
    pub fn entry(&mut self, key: K) -> Entry<'_, K, V> {
        Entry { map: self, key }
    }
    pub fn clone_from(&mut self, other: &Self)
    where
        K: Clone,
        V: Clone,
    {
        self.items = other.items.clone();
    }
}

pub struct Entry<'a, K, V> {
    map: &'a mut BTreeMap<K, V>,
    key: K,
}
impl<'a, K: Ord, V> Entry<'a, K, V> {
    pub fn or_insert_with<F: FnOnce() -> V>(self, f: F) -> &'a mut V {
        let i = match self.map.pos(&self.key) {
            Ok(i) => i,
            Err(i) => {
                self.map.items.insert(i, (self.key, f()));
                i
            }
        };
        &mut self.map.items[i].1
    }
}

impl<K: Ord, V> Extend<(K, V)> for BTreeMap<K, V> {
    fn extend<T: IntoIterator<Item = (K, V)>>(&mut self, iter: T) {
        for (k, v) in iter {
            self.insert(k, v);
        }
    }
}
impl<K, V> IntoIterator for BTreeMap<K, V> {
    type Item = (K, V);
    type IntoIter = std::vec::IntoIter<(K, V)>;
    fn into_iter(self) -> Self::IntoIter {
        self.items.into_iter()
    }
}
impl<K: Ord, V, const N: usize> From<[(K, V); N]> for BTreeMap<K, V> {
    fn from(arr: [(K, V); N]) -> Self {
        let mut m = BTreeMap::new();
        for (k, v) in arr {
            m.insert(k, v);
        }
        m
    }
}
impl<K: Ord, Q: ?Sized + Ord, V> std::ops::Index<&Q> for BTreeMap<K, V>
where
    K: Borrow<Q>,
{
    type Output = V;
    fn index(&self, key: &Q) -> &V {
        self.get(key).expect("no entry found for key")
    }
}

#[derive(Debug, Clone)]
pub struct BTreeSet<K> {
    map: BTreeMap<K, ()>,
}
impl<K> Default for BTreeSet<K> {
    fn default() -> Self {
        BTreeSet { map: BTreeMap::default() }
    }
}
impl<'a, K> IntoIterator for &'a BTreeSet<K> {
    type Item = &'a K;
    type IntoIter = std::iter::Map<std::slice::Iter<'a, (K, ())>, fn(&'a (K, ())) -> &'a K>;
    fn into_iter(self) -> Self::IntoIter {
        fn first<'b, K>(kv: &'b (K, ())) -> &'b K {
            &kv.0
        }
        self.map.items.iter().map(first as fn(&'a (K, ())) -> &'a K)
    }
}
impl<K: Ord> BTreeSet<K> {
    pub fn new() -> Self {
        BTreeSet { map: BTreeMap::new() }
    }
    pub fn insert(&mut self, key: K) -> bool {
        self.map.insert(key, ()).is_none()
    }
    pub fn contains<Q: ?Sized + Ord>(&self, key: &Q) -> bool
    where
        K: Borrow<Q>,
    {
        self.map.contains_key(key)
    }
}
