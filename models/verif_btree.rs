//! M-BTREE: sorted inline-array models of BTreeMap / BTreeSet (verification only).
//!
//! Same API subset and the same (sorted) iteration order as `std::collections::BTreeMap`.
//! Entries live in an inline array of `Option<(K, V)>` slots rather than on the heap:
//! CBMC's symbolic execution constant-propagates stores to inline arrays at constant
//! indices, whereas anything that went through `Vec::insert`'s `memmove` is opaque to it
//! (every later `match value.as_str()` then keeps all arms feasible).
//! Validated by running the repository's own unit tests against the substituted build
//! (`bin/check --validate-models`).
use std::borrow::Borrow;

#[cfg(kani)]
pub const CAP: usize = 8;
#[cfg(not(kani))]
pub const CAP: usize = 40;

#[derive(Debug)]
pub struct BTreeMap<K, V> {
    len: usize,
    slots: [Option<(K, V)>; CAP],
}

impl<K, V> Default for BTreeMap<K, V> {
    fn default() -> Self {
        BTreeMap { len: 0, slots: [const { None }; CAP] }
    }
}

impl<K: Clone, V: Clone> Clone for BTreeMap<K, V> {
    fn clone(&self) -> Self {
        let mut out = BTreeMap { len: 0, slots: [const { None }; CAP] };
        let mut i = 0;
        while i < self.len {
            out.slots[i] = self.slots[i].clone();
            i += 1;
        }
        out.len = self.len;
        out
    }
}

fn split_slot<K, V>(kv: &Option<(K, V)>) -> (&K, &V) {
    let kv = kv.as_ref().unwrap();
    (&kv.0, &kv.1)
}

fn first_slot<K>(kv: &Option<(K, ())>) -> &K {
    &kv.as_ref().unwrap().0
}

impl<'a, K, V> IntoIterator for &'a BTreeMap<K, V> {
    type Item = (&'a K, &'a V);
    type IntoIter =
        std::iter::Map<std::slice::Iter<'a, Option<(K, V)>>, fn(&'a Option<(K, V)>) -> (&'a K, &'a V)>;
    fn into_iter(self) -> Self::IntoIter {
        self.slots[..self.len]
            .iter()
            .map(split_slot as fn(&'a Option<(K, V)>) -> (&'a K, &'a V))
    }
}

impl<K: Ord, V> BTreeMap<K, V> {
    pub fn new() -> Self {
        BTreeMap { len: 0, slots: [const { None }; CAP] }
    }

    fn pos<Q: ?Sized + Ord>(&self, key: &Q) -> Result<usize, usize>
    where
        K: Borrow<Q>,
    {
        let mut i = 0;
        while i < self.len {
            match self.slots[i].as_ref().unwrap().0.borrow().cmp(key) {
                std::cmp::Ordering::Less => i += 1,
                std::cmp::Ordering::Equal => return Ok(i),
                std::cmp::Ordering::Greater => return Err(i),
            }
        }
        Err(i)
    }

    pub fn insert(&mut self, key: K, value: V) -> Option<V> {
        match self.pos(&key) {
            Ok(i) => {
                let old = self.slots[i].take();
                self.slots[i] = Some((key, value));
                old.map(|kv| kv.1)
            }
            Err(i) => {
                assert!(self.len < CAP, "M-BTREE model capacity exceeded");
                let mut j = self.len;
                while j > i {
                    self.slots[j] = self.slots[j - 1].take();
                    j -= 1;
                }
                self.slots[i] = Some((key, value));
                self.len += 1;
                None
            }
        }
    }

    pub fn get<Q: ?Sized + Ord>(&self, key: &Q) -> Option<&V>
    where
        K: Borrow<Q>,
    {
        match self.pos(key) {
            Ok(i) => Some(&self.slots[i].as_ref().unwrap().1),
            Err(_) => None,
        }
    }

    pub fn contains_key<Q: ?Sized + Ord>(&self, key: &Q) -> bool
    where
        K: Borrow<Q>,
    {
        self.pos(key).is_ok()
    }

    pub fn remove<Q: ?Sized + Ord>(&mut self, key: &Q) -> Option<V>
    where
        K: Borrow<Q>,
    {
        match self.pos(key) {
            Ok(i) => {
                let old = self.slots[i].take();
                let mut j = i;
                while j + 1 < self.len {
                    self.slots[j] = self.slots[j + 1].take();
                    j += 1;
                }
                self.len -= 1;
                old.map(|kv| kv.1)
            }
            Err(_) => None,
        }
    }

    pub fn iter(&self) -> impl DoubleEndedIterator<Item = (&K, &V)> {
        self.slots[..self.len].iter().map(split_slot)
    }

    pub fn into_keys(self) -> impl Iterator<Item = K> {
        self.into_iter().map(|kv| kv.0)
    }

    pub fn len(&self) -> usize {
        self.len
    }

    pub fn is_empty(&self) -> bool {
        self.len == 0
    }

    pub fn clear(&mut self) {
        let mut i = 0;
        while i < self.len {
            self.slots[i] = None;
            i += 1;
        }
        self.len = 0;
    }

    pub fn entry(&mut self, key: K) -> Entry<'_, K, V> {
        Entry { map: self, key }
    }

    pub fn clone_from(&mut self, other: &Self)
    where
        K: Clone,
        V: Clone,
    {
        *self = other.clone();
    }
}

pub struct Entry<'a, K, V> {
    map: &'a mut BTreeMap<K, V>,
    key: K,
}

impl<'a, K: Ord, V> Entry<'a, K, V> {
    pub fn or_insert_with<F: FnOnce() -> V>(self, f: F) -> &'a mut V {
        let i = match self.map.pos(&self.key) {
            Ok(i) => i,
            Err(i) => {
                self.map.insert(self.key, f());
                i
            }
        };
        &mut self.map.slots[i].as_mut().unwrap().1
    }
}

impl<K: Ord, V> Extend<(K, V)> for BTreeMap<K, V> {
    fn extend<T: IntoIterator<Item = (K, V)>>(&mut self, iter: T) {
        for (k, v) in iter {
            self.insert(k, v);
        }
    }
}

impl<K, V> IntoIterator for BTreeMap<K, V> {
    type Item = (K, V);
    type IntoIter = std::vec::IntoIter<(K, V)>;
    fn into_iter(mut self) -> Self::IntoIter {
        let mut v = Vec::with_capacity(self.len);
        let mut i = 0;
        while i < self.len {
            v.push(self.slots[i].take().unwrap());
            i += 1;
        }
        v.into_iter()
    }
}

impl<K: Ord, V, const N: usize> From<[(K, V); N]> for BTreeMap<K, V> {
    fn from(arr: [(K, V); N]) -> Self {
        let mut m = BTreeMap::new();
        for (k, v) in arr {
            m.insert(k, v);
        }
        m
    }
}

impl<K: Ord, Q: ?Sized + Ord, V> std::ops::Index<&Q> for BTreeMap<K, V>
where
    K: Borrow<Q>,
{
    type Output = V;
    fn index(&self, key: &Q) -> &V {
        self.get(key).expect("no entry found for key")
    }
}

#[derive(Debug)]
pub struct BTreeSet<K> {
    map: BTreeMap<K, ()>,
}

impl<K> Default for BTreeSet<K> {
    fn default() -> Self {
        BTreeSet { map: BTreeMap::default() }
    }
}

impl<K: Clone> Clone for BTreeSet<K> {
    fn clone(&self) -> Self {
        BTreeSet { map: self.map.clone() }
    }
}

impl<'a, K> IntoIterator for &'a BTreeSet<K> {
    type Item = &'a K;
    type IntoIter = std::iter::Map<std::slice::Iter<'a, Option<(K, ())>>, fn(&'a Option<(K, ())>) -> &'a K>;
    fn into_iter(self) -> Self::IntoIter {
        self.map.slots[..self.map.len]
            .iter()
            .map(first_slot as fn(&'a Option<(K, ())>) -> &'a K)
    }
}

impl<K: Ord> BTreeSet<K> {
    pub fn new() -> Self {
        BTreeSet { map: BTreeMap::new() }
    }
    pub fn insert(&mut self, key: K) -> bool {
        self.map.insert(key, ()).is_none()
    }
    pub fn contains<Q: ?Sized + Ord>(&self, key: &Q) -> bool
    where
        K: Borrow<Q>,
    {
        self.map.contains_key(key)
    }
}
