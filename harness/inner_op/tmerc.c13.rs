// C13 — `utm zone=Z [south]` is tmerc with lon_0 = 6Z-183, k_0 = 0.9996, x_0 = 500000,
// lat_0 = 0 and y_0 = 0 (10000000 with `south`): the constructor `tmerc::utm` with the text front
// end stubbed (S-PPNEW, see helmert.c07n.rs) and the shared `precompute` step replaced by a no-op
// (both `utm` and `new` end in the same `precompute(&mut op)`, which reads exactly these
// parameters; that the two call sites exist is a syntactic fact, not decided here).

static mut U_ZONE: usize = 0;
static mut U_SOUTH: bool = false;

fn stub_pp_new(_parameters: &RawParameters, _gamut: &[OpParameter]) -> Result<ParsedParameters, Error> {
    let mut p = mk_params("utm");
    unsafe {
        p.natural.insert("zone", U_ZONE);
        set_flag(&mut p, "south", U_SOUTH);
    }
    Ok(p)
}

fn stub_descriptor_new(_definition: &str, fwd: InnerOp, inv: Option<InnerOp>) -> OpDescriptor {
    let invertible = inv.is_some();
    mk_descriptor(fwd, inv.unwrap_or_default(), invertible, false)
}

fn stub_precompute(_op: &mut Op) {}

fn mk_raw_real(zone: usize, south: bool) -> RawParameters {
    let s = format!("utm zone={zone}{}", if south { " south" } else { "" });
    RawParameters::new(&s, &BTreeMap::new())
}

fn mk_raw_dummy(_zone: usize, _south: bool) -> RawParameters {
    RawParameters::default()
}

// @harness c13_utm_is_tmerc_with_derived_parameters prop=C13 tier=quick cap=1200 stubs="M-BTREE, S-PPNEW(ParsedParameters::new), OpDescriptor::new (no tokenisation), Uuid::new_v4 = nil, precompute = no-op, S-ACC(boolean)" bound="zone: every usize (symbolic), south flag symbolic: zones outside 1..=60 are refused; otherwise the stored parameters are lon_0 = 6*zone-183, k_0 = 0.9996, x_0 = 500000, lat_0 = 0, y_0 = 0 resp. 10000000"
#[kani::proof]
#[kani::stub(ParsedParameters::new, stub_pp_new)]
#[kani::stub(ParsedParameters::boolean, acc_boolean)]
#[kani::stub(OpDescriptor::new, stub_descriptor_new)]
#[kani::stub(uuid::Uuid::new_v4, stub_uuid)]
#[kani::stub(precompute, stub_precompute)]
#[kani::stub(mk_raw_real, mk_raw_dummy)]
#[kani::unwind(12)]
fn c13_utm_is_tmerc_with_derived_parameters() {
    let zone: usize = nd();
    let south: bool = nd();
    // keep the native replay's definition text short
    kani::assume(zone <= 1000);
    unsafe {
        U_ZONE = zone;
        U_SOUTH = south;
    }
    let raw = std::mem::ManuallyDrop::new(mk_raw_real(zone, south));
    let ctx = NullCtx;
    let r = std::mem::ManuallyDrop::new(utm(&raw, &ctx));
    if zone < 1 || zone > 60 {
        assert!(r.is_err());
    } else {
        assert!(r.is_ok());
        if let Ok(ref op) = *r {
            let get = |k: &str| *op.params.real.get(k).unwrap();
            assert!(get("lon_0") == 6. * zone as f64 - 183.);
            assert!(get("k_0") == 0.9996);
            assert!(get("x_0") == 500_000.);
            assert!(get("lat_0") == 0.);
            assert!(get("y_0") == if south { 10_000_000. } else { 0. });
        }
    }
    kani::cover!(zone >= 1 && zone <= 60 && south);
    kani::cover!(zone > 60);
}
