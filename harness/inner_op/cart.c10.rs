// C10 — cart inverse at the poles: a point on the rotation axis is inside the domain (the code
// has a dedicated shortcut for it), so it is transformed AND counted; time is untouched.

// @harness c10_cart_inv_pole_counted prop=C10 tier=quick cap=900 stubs="M-BTREE, ParsedParameters::ellps = GRS80, S-UF-SMALL(atan2, hypot with f(0,0)=0, sqrt)" bound="X = Y = 0 (the pole shortcut), Z in D-SMALL x 1000 km, t all f64, 2 tuples: latitude +-pi/2 with the sign of Z, height |Z| - b, t bit-identical, count = number of tuples"
#[kani::proof]
#[kani::stub(ParsedParameters::ellps, stub_ellps_default)]
#[kani::stub(f64::atan2, uf_binary)]
#[kani::stub(f64::hypot, uf_binary_nonneg)]
#[kani::stub(f64::sqrt, uf_unary_nonneg)]
#[kani::unwind(8)]
fn c10_cart_inv_pole_counted() {
    let op = mk_op(std::mem::ManuallyDrop::into_inner(mk_params_s("cart")), InnerOp(cart_fwd), InnerOp(cart_inv));
    let ctx = NullCtx;
    let b = Ellipsoid::default().semiminor_axis();
    let z0 = small_f() * 1.0e6;
    let z1 = small_f() * 1.0e6;
    let (t0, t1): (f64, f64) = (nd(), nd());
    let mut data = [Coor4D([0., 0., z0, t0]), Coor4D([0., 0., z1, t1])];
    let n = cart_inv(&op, &ctx, &mut data);
    let zs = [z0, z1];
    let ts = [t0, t1];
    for i in 0..2 {
        assert!(data[i].0[1] == std::f64::consts::FRAC_PI_2.copysign(zs[i]));
        assert!(feq(data[i].0[2], zs[i].abs() - b));
        assert!(beq(data[i].0[3], ts[i]));
    }
    assert!(n == 2);
    kani::cover!(z0 < 0.);
}
