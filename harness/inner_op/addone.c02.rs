// C02 — the same tuple through every supported container gives the same values in the
// dimensions the container stores; C01 — addone round trip; C19 — CoordinateSet accessors.
// Kernel: addone (x += 1), exact on D-SMALL.

fn op() -> MOp {
    mk_op(std::mem::ManuallyDrop::into_inner(mk_params_s("addone")), InnerOp(fwd), InnerOp(inv))
}

// @harness c02_containers_same_values prop=C02 tier=quick cap=900 stubs="M-BTREE" bound="one tuple, x in D-SMALL (arithmetic), y,z,t all f64: [Coor4D;1], Vec<Coor4D>, &mut [Coor4D], [Coor3D;1]+(T,t), [Coor2D;1]+(T,h,t), [Coor2D;1], [Coor32;1] agree in the stored dimensions"
#[kani::proof]
#[kani::unwind(6)]
fn c02_containers_same_values() {
    let op = op();
    let ctx = NullCtx;
    let c = Coor4D([small_f(), nd(), nd(), nd()]);
    // reference: the 4D array
    let mut r4 = [c];
    assert!(fwd(&op, &ctx, &mut r4) == 1);
    let want = r4[0];
    assert!(feq(want.0[0], c.0[0] + 1.) && beq(want.0[1], c.0[1]) && beq(want.0[2], c.0[2]) && beq(want.0[3], c.0[3]));
    // Vec and slice
    let mut v = vec![c];
    assert!(fwd(&op, &ctx, &mut v) == 1);
    assert!(beq4(&v[0], &want));
    let mut arr = [c];
    let mut sl: &mut [Coor4D] = &mut arr;
    assert!(fwd(&op, &ctx, &mut sl) == 1);
    assert!(beq4(&arr[0], &want));
    // 3D + fixed epoch
    let mut s3 = ([Coor3D([c.0[0], c.0[1], c.0[2]])], c.0[3]);
    assert!(fwd(&op, &ctx, &mut s3) == 1);
    assert!(beq(s3.0[0].0[0], want.0[0]) && beq(s3.0[0].0[1], want.0[1]) && beq(s3.0[0].0[2], want.0[2]));
    assert!(beq(s3.get_coord(0).0[3], c.0[3]));
    // 2D + fixed height and epoch
    let mut s2 = ([Coor2D([c.0[0], c.0[1]])], c.0[2], c.0[3]);
    assert!(fwd(&op, &ctx, &mut s2) == 1);
    assert!(beq(s2.0[0].0[0], want.0[0]) && beq(s2.0[0].0[1], want.0[1]));
    let g = s2.get_coord(0);
    assert!(beq(g.0[2], c.0[2]) && beq(g.0[3], c.0[3]));
    // plain 2D: height reads 0, epoch NaN
    let mut p2 = [Coor2D([c.0[0], c.0[1]])];
    assert!(fwd(&op, &ctx, &mut p2) == 1);
    assert!(beq(p2[0].0[0], want.0[0]) && beq(p2[0].0[1], want.0[1]));
    let g = p2.get_coord(0);
    assert!(g.0[2] == 0. && g.0[3].is_nan());
    // 32-bit 2D: the stored dimensions after rounding to f32
    let mut p32 = [Coor32([c.0[0] as f32, c.0[1] as f32])];
    assert!(fwd(&op, &ctx, &mut p32) == 1);
    assert!(beq32(p32[0].0[0], (c.0[0] as f32 as f64 + 1.) as f32) && beq32(p32[0].0[1], c.0[1] as f32));
    kani::cover!(true);
    std::mem::forget(v);
}

// @harness c02_set_accessors prop=C02 tier=quick cap=900 btree=no bound="CoordinateSet accessors on 2 tuples, all f64: set_coord/get_coord round trip in the stored dimensions, set_xy/xyz/xyzt == set_coord, xy/xyz/xyzt == get_coord, stomp => all NaN, len/dim"
#[kani::proof]
#[kani::unwind(6)]
fn c02_set_accessors() {
    let a = any_c4();
    let b = any_c4();
    let i: usize = nd();
    kani::assume(i < 2);
    let mut s4 = [a, b];
    let v = any_c4();
    s4.set_coord(i, &v);
    assert!(beq4(&s4.get_coord(i), &v) && beq4(&s4.get_coord(1 - i), if i == 0 { &b } else { &a }));
    let (x, y, z, t) = CoordinateSet::xyzt(&s4, i);
    assert!(beq(x, v.0[0]) && beq(y, v.0[1]) && beq(z, v.0[2]) && beq(t, v.0[3]));
    let (p, q, r): (f64, f64, f64) = (nd(), nd(), nd());
    CoordinateSet::set_xy(&mut s4, i, p, q);
    let g = s4.get_coord(i);
    assert!(beq(g.0[0], p) && beq(g.0[1], q) && beq(g.0[2], v.0[2]) && beq(g.0[3], v.0[3]));
    CoordinateSet::set_xyz(&mut s4, i, q, p, r);
    let g = s4.get_coord(i);
    assert!(beq(g.0[0], q) && beq(g.0[1], p) && beq(g.0[2], r) && beq(g.0[3], v.0[3]));
    assert!(CoordinateSet::len(&s4) == 2 && CoordinateSet::dim(&s4) == 4);
    // lower dimensional sets
    let mut s3 = [Coor3D([a.0[0], a.0[1], a.0[2]]), Coor3D([b.0[0], b.0[1], b.0[2]])];
    s3.set_coord(i, &v);
    let g = s3.get_coord(i);
    assert!(beq(g.0[0], v.0[0]) && beq(g.0[1], v.0[1]) && beq(g.0[2], v.0[2]) && g.0[3].is_nan());
    let mut s2 = [Coor2D([a.0[0], a.0[1]]), Coor2D([b.0[0], b.0[1]])];
    s2.set_coord(i, &v);
    let g = s2.get_coord(i);
    assert!(beq(g.0[0], v.0[0]) && beq(g.0[1], v.0[1]) && g.0[2] == 0. && g.0[3].is_nan());
    let (x, y, z) = CoordinateSet::xyz(&s2, i);
    assert!(beq(x, v.0[0]) && beq(y, v.0[1]) && z == 0.);
    // the height / epoch adapters read their fixed values, through every accessor
    let h: f64 = nd();
    let e: f64 = nd();
    let ad = (s2, h, e);
    let g = ad.get_coord(i);
    assert!(beq(g.0[0], v.0[0]) && beq(g.0[1], v.0[1]) && beq(g.0[2], h) && beq(g.0[3], e));
    let (x, y, z) = CoordinateSet::xyz(&ad, i);
    assert!(beq(x, v.0[0]) && beq(y, v.0[1]) && beq(z, h));
    let (x, y, z, t) = CoordinateSet::xyzt(&ad, i);
    assert!(beq(x, v.0[0]) && beq(y, v.0[1]) && beq(z, h) && beq(t, e));
    let ad3 = (s3, e);
    let (x, y, z, t) = CoordinateSet::xyzt(&ad3, i);
    assert!(beq(x, v.0[0]) && beq(y, v.0[1]) && beq(z, v.0[2]) && beq(t, e));
    let (x, y, z) = CoordinateSet::xyz(&ad3, i);
    assert!(beq(x, v.0[0]) && beq(y, v.0[1]) && beq(z, v.0[2]));
    s4.stomp();
    for k in 0..2 {
        let g = s4.get_coord(k);
        assert!(g.0[0].is_nan() && g.0[1].is_nan() && g.0[2].is_nan() && g.0[3].is_nan());
    }
    kani::cover!(i == 1);
}

// @harness c01_addone_roundtrip prop=C01 tier=quick cap=900 stubs="M-BTREE" bound="x in D-SMALL (so +1/-1 is exact), y,z,t all f64, 2 tuples: inv(fwd(p)) == p and fwd(inv(p)) == p bitwise; counts = n"
#[kani::proof]
#[kani::unwind(6)]
fn c01_addone_roundtrip() {
    let op = op();
    let ctx = NullCtx;
    let a = Coor4D([small_f(), nd(), nd(), nd()]);
    let b = Coor4D([small_f(), nd(), nd(), nd()]);
    let mut d = [a, b];
    assert!(fwd(&op, &ctx, &mut d) == 2 && inv(&op, &ctx, &mut d) == 2);
    assert!(beq4(&d[0], &a) && beq4(&d[1], &b));
    assert!(inv(&op, &ctx, &mut d) == 2 && fwd(&op, &ctx, &mut d) == 2);
    assert!(feq(d[0].0[0], a.0[0]) && feq(d[1].0[0], b.0[0]));
    kani::cover!(true);
}
