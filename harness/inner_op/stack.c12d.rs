// C12 — dispatch layer: `stack_fwd` / `stack_inv` map every action and direction to the
// primitive with the argument transformation documented in Rumination 002 ("Inverse
// operation" table): inverse push = pop with reversed list, inverse pop = push with reversed
// list, inverse roll m,n = roll m,m-n, inverse unroll m,n = roll m,n, unroll m,n = roll m,m-n,
// flip and swap unchanged. The primitives themselves are checked against the abstract
// machine in stack.c12.rs; here the oracle is the primitive applied to a copy of the state.
//
// Parameters are built the way `stack::new` builds them (text["action"], one series), maps are
// M-BTREE (sorted-Vec model). Index arguments are symbolic over 1..=4, roll arguments are
// symbolic integers with |n| < m (the constructor rejects everything else).

const N: usize = 2;
const D: usize = 2;

fn mk_stack2(vals: &[[f64; N]; D]) -> Vec<Vec<f64>> {
    let mut stack: Vec<Vec<f64>> = Vec::with_capacity(D + 4);
    for i in 0..D {
        stack.push(vec![vals[i][0], vals[i][1]]);
    }
    stack
}

fn stack_params(action: &'static str, args: Vec<f64>) -> ParsedParameters {
    let mut p = mk_params("stack");
    p.text.insert("action", kstring(action));
    p.series.insert(action, args);
    p
}

fn idx() -> usize {
    let a: u8 = nd();
    kani::assume(a >= 1 && a <= 4);
    a as usize
}

fn same_state(s1: &Vec<Vec<f64>>, o1: &[Coor4D; N], s2: &Vec<Vec<f64>>, o2: &[Coor4D; N]) -> bool {
    if s1.len() != s2.len() {
        return false;
    }
    let mut ok = true;
    for i in 0..s1.len() {
        ok &= s1[i].len() == s2[i].len();
        if !ok {
            return false;
        }
        for k in 0..s1[i].len() {
            ok &= beq(s1[i][k], s2[i][k]);
        }
    }
    for i in 0..N {
        ok &= beq4(&o1[i], &o2[i]);
    }
    ok
}

fn dispatch_case(action: &'static str, fwd: bool) {
    let vals: [[f64; N]; D] = nd();
    let ops0 = [any_c4(), any_c4()];
    let (mut s1, mut o1) = (mk_stack2(&vals), ops0);
    let (mut s2, mut o2) = (mk_stack2(&vals), ops0);
    let a = idx();
    let b = idx();
    let m: i64 = 2;
    let n: i8 = nd();
    kani::assume((n as i64) > -m && (n as i64) < m);
    let n = n as i64;
    let (r1, r2);
    match action {
        "push" => {
            let p = stack_params("push", vec![a as f64, b as f64]);
            if fwd {
                r1 = stack_fwd(&mut s1, &mut o1, &p);
                r2 = stack_push(&mut s2, &mut o2, &[a, b]);
            } else {
                r1 = stack_inv(&mut s1, &mut o1, &p);
                r2 = stack_pop(&mut s2, &mut o2, &[b, a]);
            }
            std::mem::forget(p);
        }
        "pop" => {
            let p = stack_params("pop", vec![a as f64, b as f64]);
            if fwd {
                r1 = stack_fwd(&mut s1, &mut o1, &p);
                r2 = stack_pop(&mut s2, &mut o2, &[a, b]);
            } else {
                r1 = stack_inv(&mut s1, &mut o1, &p);
                r2 = stack_push(&mut s2, &mut o2, &[b, a]);
            }
            std::mem::forget(p);
        }
        "flip" => {
            let p = stack_params("flip", vec![a as f64, b as f64]);
            r1 = if fwd { stack_fwd(&mut s1, &mut o1, &p) } else { stack_inv(&mut s1, &mut o1, &p) };
            r2 = stack_flip(&mut s2, &mut o2, &[a, b]);
            std::mem::forget(p);
        }
        "roll" => {
            let p = stack_params("roll", vec![m as f64, n as f64]);
            if fwd {
                r1 = stack_fwd(&mut s1, &mut o1, &p);
                r2 = stack_roll(&mut s2, &mut o2, &[m, n]);
            } else {
                r1 = stack_inv(&mut s1, &mut o1, &p);
                r2 = stack_roll(&mut s2, &mut o2, &[m, m - n]);
            }
            std::mem::forget(p);
        }
        "unroll" => {
            let p = stack_params("unroll", vec![m as f64, n as f64]);
            if fwd {
                r1 = stack_fwd(&mut s1, &mut o1, &p);
                r2 = stack_roll(&mut s2, &mut o2, &[m, m - n]);
            } else {
                r1 = stack_inv(&mut s1, &mut o1, &p);
                r2 = stack_roll(&mut s2, &mut o2, &[m, n]);
            }
            std::mem::forget(p);
        }
        _ => {
            // swap
            let mut p = mk_params("stack");
            p.text.insert("action", kstring("swap"));
            r1 = if fwd { stack_fwd(&mut s1, &mut o1, &p) } else { stack_inv(&mut s1, &mut o1, &p) };
            s2.swap(D - 1, D - 2);
            r2 = N;
            std::mem::forget(p);
        }
    }
    assert!(r1 == r2);
    assert!(same_state(&s1, &o1, &s2, &o2));
    kani::cover!(true);
    std::mem::forget(s1);
    std::mem::forget(s2);
}

// @harness c12_dispatch_push_fwd prop=C12 tier=quick cap=900 stubs="M-BTREE, core::result::unwrap_failed (panic kept, message dropped)" bound="depth 2, 2 operands, 2 symbolic indices"
#[kani::proof]
#[kani::stub(core::result::unwrap_failed, stub_unwrap_failed)]
#[kani::unwind(8)]
fn c12_dispatch_push_fwd() {
    dispatch_case("push", true);
}

// @harness c12_dispatch_push_inv prop=C12 tier=quick cap=900 stubs="M-BTREE, core::result::unwrap_failed (panic kept, message dropped)" bound="depth 2, 2 operands, 2 symbolic indices"
#[kani::proof]
#[kani::stub(core::result::unwrap_failed, stub_unwrap_failed)]
#[kani::unwind(8)]
fn c12_dispatch_push_inv() {
    dispatch_case("push", false);
}

// @harness c12_dispatch_pop_fwd prop=C12 tier=quick cap=900 stubs="M-BTREE, core::result::unwrap_failed (panic kept, message dropped)" bound="depth 2, 2 operands, 2 symbolic indices"
#[kani::proof]
#[kani::stub(core::result::unwrap_failed, stub_unwrap_failed)]
#[kani::unwind(8)]
fn c12_dispatch_pop_fwd() {
    dispatch_case("pop", true);
}

// @harness c12_dispatch_pop_inv prop=C12 tier=quick cap=900 stubs="M-BTREE, core::result::unwrap_failed (panic kept, message dropped)" bound="depth 2, 2 operands, 2 symbolic indices"
#[kani::proof]
#[kani::stub(core::result::unwrap_failed, stub_unwrap_failed)]
#[kani::unwind(8)]
fn c12_dispatch_pop_inv() {
    dispatch_case("pop", false);
}

// @harness c12_dispatch_flip_fwd prop=C12 tier=quick cap=900 stubs="M-BTREE, core::result::unwrap_failed (panic kept, message dropped)" bound="depth 2, 2 operands, 2 symbolic indices"
#[kani::proof]
#[kani::stub(core::result::unwrap_failed, stub_unwrap_failed)]
#[kani::unwind(8)]
fn c12_dispatch_flip_fwd() {
    dispatch_case("flip", true);
}

// @harness c12_dispatch_flip_inv prop=C12 tier=quick cap=900 stubs="M-BTREE, core::result::unwrap_failed (panic kept, message dropped)" bound="depth 2, 2 operands, 2 symbolic indices"
#[kani::proof]
#[kani::stub(core::result::unwrap_failed, stub_unwrap_failed)]
#[kani::unwind(8)]
fn c12_dispatch_flip_inv() {
    dispatch_case("flip", false);
}

// @harness c12_dispatch_roll_fwd prop=C12 tier=quick cap=900 stubs="M-BTREE, core::result::unwrap_failed (panic kept, message dropped)" bound="depth 2, m=2, n symbolic |n|<m"
#[kani::proof]
#[kani::stub(core::result::unwrap_failed, stub_unwrap_failed)]
#[kani::unwind(8)]
fn c12_dispatch_roll_fwd() {
    dispatch_case("roll", true);
}

// @harness c12_dispatch_roll_inv prop=C12 tier=quick cap=900 stubs="M-BTREE, core::result::unwrap_failed (panic kept, message dropped)" bound="depth 2, m=2, n symbolic |n|<m"
#[kani::proof]
#[kani::stub(core::result::unwrap_failed, stub_unwrap_failed)]
#[kani::unwind(8)]
fn c12_dispatch_roll_inv() {
    dispatch_case("roll", false);
}

// @harness c12_dispatch_unroll_fwd prop=C12 tier=quick cap=900 stubs="M-BTREE, core::result::unwrap_failed (panic kept, message dropped)" bound="depth 2, m=2, n symbolic |n|<m"
#[kani::proof]
#[kani::stub(core::result::unwrap_failed, stub_unwrap_failed)]
#[kani::unwind(8)]
fn c12_dispatch_unroll_fwd() {
    dispatch_case("unroll", true);
}

// @harness c12_dispatch_unroll_inv prop=C12 tier=quick cap=900 stubs="M-BTREE, core::result::unwrap_failed (panic kept, message dropped)" bound="depth 2, m=2, n symbolic |n|<m"
#[kani::proof]
#[kani::stub(core::result::unwrap_failed, stub_unwrap_failed)]
#[kani::unwind(8)]
fn c12_dispatch_unroll_inv() {
    dispatch_case("unroll", false);
}

// @harness c12_dispatch_swap_fwd prop=C12 tier=quick cap=900 stubs="M-BTREE, core::result::unwrap_failed (panic kept, message dropped)" bound="depth 2, 2 operands"
#[kani::proof]
#[kani::stub(core::result::unwrap_failed, stub_unwrap_failed)]
#[kani::unwind(8)]
fn c12_dispatch_swap_fwd() {
    dispatch_case("swap", true);
}

// @harness c12_dispatch_swap_inv prop=C12 tier=quick cap=900 stubs="M-BTREE, core::result::unwrap_failed (panic kept, message dropped)" bound="depth 2, 2 operands"
#[kani::proof]
#[kani::stub(core::result::unwrap_failed, stub_unwrap_failed)]
#[kani::unwind(8)]
fn c12_dispatch_swap_inv() {
    dispatch_case("swap", false);
}

// ---- panic-freedom / count honesty of the dispatch layer alone (no oracle call in the same
// query): every action, both directions, from depth 2; count is 0 or the number of operands.
fn nopanic_case(action: &'static str, fwd: bool) {
    let vals: [[f64; N]; D] = nd();
    let mut ops = [any_c4(), any_c4()];
    let mut stack = mk_stack2(&vals);
    let a = idx();
    let b = idx();
    let n: i8 = nd();
    kani::assume(n > -2 && n < 2);
    let p = match action {
        "push" | "pop" | "flip" => stack_params(action, vec![a as f64, b as f64]),
        "roll" | "unroll" => stack_params(action, vec![2.0, n as f64]),
        _ => {
            let mut p = mk_params("stack");
            p.text.insert("action", kstring(action));
            p
        }
    };
    let r = if fwd { stack_fwd(&mut stack, &mut ops, &p) } else { stack_inv(&mut stack, &mut ops, &p) };
    assert!(r == N || r == 0);
    kani::cover!(true);
    std::mem::forget(p);
    std::mem::forget(stack);
}

// @harness c12_nopanic_unroll_inv prop=C12 tier=quick cap=900 stubs="M-BTREE, core::result::unwrap_failed (panic kept, message dropped)" bound="depth 2, unroll=2,n n symbolic, inverse direction"
#[kani::proof]
#[kani::stub(core::result::unwrap_failed, stub_unwrap_failed)]
#[kani::unwind(8)]
fn c12_nopanic_unroll_inv() {
    nopanic_case("unroll", false);
}

// @harness c12_nopanic_roll_inv prop=C12 tier=quick cap=900 stubs="M-BTREE, core::result::unwrap_failed (panic kept, message dropped)" bound="depth 2, roll=2,n n symbolic, inverse direction"
#[kani::proof]
#[kani::stub(core::result::unwrap_failed, stub_unwrap_failed)]
#[kani::unwind(8)]
fn c12_nopanic_roll_inv() {
    nopanic_case("roll", false);
}

// @harness c12_nopanic_unroll_fwd prop=C12 tier=quick cap=900 stubs="M-BTREE, core::result::unwrap_failed (panic kept, message dropped)" bound="depth 2, unroll=2,n n symbolic, forward direction"
#[kani::proof]
#[kani::stub(core::result::unwrap_failed, stub_unwrap_failed)]
#[kani::unwind(8)]
fn c12_nopanic_unroll_fwd() {
    nopanic_case("unroll", true);
}

// @harness c12_nopanic_drop_fwd prop=C12 tier=quick cap=900 stubs="M-BTREE, core::result::unwrap_failed (panic kept, message dropped)" bound="depth 2, action 'drop' (accepted by the constructor, no primitive): count 0, no panic"
#[kani::proof]
#[kani::stub(core::result::unwrap_failed, stub_unwrap_failed)]
#[kani::unwind(8)]
fn c12_nopanic_drop_fwd() {
    nopanic_case("drop", true);
}

// ---- underflow through the dispatch layer: from an EMPTY stack every consuming action, in the
// direction in which it consumes, sets all operands to NaN and reports zero (no panic).
fn underflow_case(action: &'static str, fwd: bool) {
    let mut ops = [any_c4(), any_c4()];
    let mut stack: Vec<Vec<f64>> = Vec::with_capacity(4);
    let a = idx();
    let p = match action {
        "push" | "pop" | "flip" => stack_params(action, vec![a as f64]),
        _ => stack_params(action, vec![2.0, 1.0]),
    };
    let r = if fwd { stack_fwd(&mut stack, &mut ops, &p) } else { stack_inv(&mut stack, &mut ops, &p) };
    assert!(r == 0);
    for i in 0..N {
        for k in 0..4 {
            assert!(ops[i].0[k].is_nan());
        }
    }
    kani::cover!(true);
    std::mem::forget(p);
    std::mem::forget(stack);
}

// @harness c12_underflow_pop_fwd prop=C12 tier=quick cap=900 stubs="M-BTREE, core::result::unwrap_failed (panic kept, message dropped)" bound="empty stack, action pop forward: all operands NaN, count 0, no panic"
#[kani::proof]
#[kani::stub(core::result::unwrap_failed, stub_unwrap_failed)]
#[kani::unwind(8)]
fn c12_underflow_pop_fwd() {
    underflow_case("pop", true);
}

// @harness c12_underflow_push_inv prop=C12 tier=quick cap=900 stubs="M-BTREE, core::result::unwrap_failed (panic kept, message dropped)" bound="empty stack, action push inverse: all operands NaN, count 0, no panic"
#[kani::proof]
#[kani::stub(core::result::unwrap_failed, stub_unwrap_failed)]
#[kani::unwind(8)]
fn c12_underflow_push_inv() {
    underflow_case("push", false);
}

// @harness c12_underflow_flip_fwd prop=C12 tier=quick cap=900 stubs="M-BTREE, core::result::unwrap_failed (panic kept, message dropped)" bound="empty stack, action flip forward: all operands NaN, count 0, no panic"
#[kani::proof]
#[kani::stub(core::result::unwrap_failed, stub_unwrap_failed)]
#[kani::unwind(8)]
fn c12_underflow_flip_fwd() {
    underflow_case("flip", true);
}

// @harness c12_underflow_flip_inv prop=C12 tier=quick cap=900 stubs="M-BTREE, core::result::unwrap_failed (panic kept, message dropped)" bound="empty stack, action flip inverse: all operands NaN, count 0, no panic"
#[kani::proof]
#[kani::stub(core::result::unwrap_failed, stub_unwrap_failed)]
#[kani::unwind(8)]
fn c12_underflow_flip_inv() {
    underflow_case("flip", false);
}

// @harness c12_underflow_roll_fwd prop=C12 tier=quick cap=900 stubs="M-BTREE, core::result::unwrap_failed (panic kept, message dropped)" bound="empty stack, action roll forward: all operands NaN, count 0, no panic"
#[kani::proof]
#[kani::stub(core::result::unwrap_failed, stub_unwrap_failed)]
#[kani::unwind(8)]
fn c12_underflow_roll_fwd() {
    underflow_case("roll", true);
}

// @harness c12_underflow_roll_inv prop=C12 tier=quick cap=900 stubs="M-BTREE, core::result::unwrap_failed (panic kept, message dropped)" bound="empty stack, action roll inverse: all operands NaN, count 0, no panic"
#[kani::proof]
#[kani::stub(core::result::unwrap_failed, stub_unwrap_failed)]
#[kani::unwind(8)]
fn c12_underflow_roll_inv() {
    underflow_case("roll", false);
}

// @harness c12_underflow_unroll_fwd prop=C12 tier=quick cap=900 stubs="M-BTREE, core::result::unwrap_failed (panic kept, message dropped)" bound="empty stack, action unroll forward: all operands NaN, count 0, no panic"
#[kani::proof]
#[kani::stub(core::result::unwrap_failed, stub_unwrap_failed)]
#[kani::unwind(8)]
fn c12_underflow_unroll_fwd() {
    underflow_case("unroll", true);
}

// @harness c12_underflow_unroll_inv prop=C12 tier=quick cap=900 stubs="M-BTREE, core::result::unwrap_failed (panic kept, message dropped)" bound="empty stack, action unroll inverse: all operands NaN, count 0, no panic"
#[kani::proof]
#[kani::stub(core::result::unwrap_failed, stub_unwrap_failed)]
#[kani::unwind(8)]
fn c12_underflow_unroll_inv() {
    underflow_case("unroll", false);
}
