// C10 / C02 — tmerc inverse: the strip guard. A tuple whose normalised easting is beyond the
// declared limit is set to NaN in x,y and not counted; every other tuple of the same set is
// still processed and counted (a failing neighbour does not end the batch); height and time are
// bit-identical for every tuple. libm is S-UF-SMALL: only the guard, the counting and the data
// movement are decided, nothing about the projected values.

fn tmerc_op(x0: f64, qs: f64, zb: f64) -> MOp {
    let mut p = mk_params_s("tmerc");
    set_acc(&mut p, 1., x0, 0., 0., 0.);
    let fc = FourierCoefficients { fwd: [1., 2., -1., 0., 1., -2.], inv: [2., -1., 1., 1., 0., -1.], etc: [1., 2.] };
    p.fourier_coefficients.insert("conformal", fc);
    p.fourier_coefficients.insert("tm", fc);
    p.real.insert("scaled_radius", qs);
    p.real.insert("zb", zb);
    mk_op(std::mem::ManuallyDrop::into_inner(p), InnerOp(fwd), InnerOp(inv))
}

// @harness c10_tmerc_inv_strip_guard prop=C10 tier=thorough cap=3600 may_timeout=yes stubs="M-BTREE, S-ACC(x, lon, ellps), S-UF-SMALL(sin_cos, sin, cos, sinh, cosh, atan, atan2, hypot, asinh, atanh, tan, exp, sqrt)" bound="x_0, eastings/northings in D-SMALL, scaled radius in {1,2}, 3 tuples, z,t all f64: beyond the strip limit => x,y NaN and not counted; count == number of tuples inside; a tuple after a failing one is still processed; z,t bit-identical"
#[kani::proof]
#[kani::stub(ParsedParameters::k, acc_k)]
#[kani::stub(ParsedParameters::x, acc_x)]
#[kani::stub(ParsedParameters::y, acc_y)]
#[kani::stub(ParsedParameters::lat, acc_lat)]
#[kani::stub(ParsedParameters::lon, acc_lon)]
#[kani::stub(ParsedParameters::ellps, stub_ellps_default)]
#[kani::stub(f64::sin_cos, uf_sin_cos)]
#[kani::stub(f64::sin, uf_unary)]
#[kani::stub(f64::cos, uf_unary)]
#[kani::stub(f64::sinh, uf_unary)]
#[kani::stub(f64::cosh, uf_unary_nonneg)]
#[kani::stub(f64::atan, uf_unary)]
#[kani::stub(f64::atan2, uf_binary)]
#[kani::stub(f64::hypot, uf_binary_nonneg)]
#[kani::stub(f64::asinh, uf_unary)]
#[kani::stub(f64::atanh, uf_unary)]
#[kani::stub(f64::tan, uf_unary)]
#[kani::stub(f64::exp, uf_unary_nonneg)]
#[kani::stub(f64::sqrt, uf_unary_nonneg)]
#[kani::unwind(20)]
fn c10_tmerc_inv_strip_guard() {
    let x0 = small_f();
    let two: bool = nd();
    let qs = if two { 2. } else { 1. };
    let op = tmerc_op(x0, qs, small_f());
    let ctx = NullCtx;
    let mk = || Coor4D([small_f(), small_f(), nd(), nd()]);
    let src = [mk(), mk(), mk()];
    let mut data = src;
    let n = inv(&op, &ctx, &mut data);
    let mut inside = 0;
    for i in 0..3 {
        let beyond = ((src[i].0[0] - x0) / qs).abs() > 2.623395162778;
        if beyond {
            assert!(data[i].0[0].is_nan() && data[i].0[1].is_nan());
        } else {
            // inside the strip: processed and counted (the projected values themselves are
            // uninterpreted under S-UF-SMALL and deliberately kept out of every assertion, which
            // keeps the series arithmetic out of the cone of influence)
            inside += 1;
        }
        assert!(beq(data[i].0[2], src[i].0[2]) && beq(data[i].0[3], src[i].0[3]));
    }
    assert!(n == inside);
    kani::cover!(inside == 2);
    kani::cover!(inside == 0);
}
