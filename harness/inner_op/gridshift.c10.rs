// C10 / C08 — gridshift with S-GRID grids: conventions, honest counts, NaN for failures,
// untouched axes. `f64::hypot` (convergence test of the inverse iteration) is S-UF-SMALL: the
// iteration then converges or not arbitrarily, which over-approximates every real grid.

fn gridshift_op(null: bool, grids: Vec<std::sync::Arc<dyn Grid>>) -> MOp {
    let mut pp = mk_params_s("gridshift");
    set_flag(&mut pp, "null_grid", null);
    pp.grids = grids;
    mk_op(std::mem::ManuallyDrop::into_inner(pp), InnerOp(fwd), InnerOp(inv))
}

fn first_hit(gs: &[(bool, bool, Coor4D)]) -> Option<Coor4D> {
    let mut v: Option<Coor4D> = None;
    for g in gs {
        if v.is_none() && g.0 {
            v = Some(g.2);
        }
    }
    for g in gs {
        if v.is_none() && g.1 {
            v = Some(g.2);
        }
    }
    v
}

fn gridshift_fwd_case(nbands: usize) {
    let g0 = any_anygrid(nbands);
    let g1 = any_anygrid(nbands);
    let gs = [(g0.hit0, g0.hit_half, g0.value), (g1.hit0, g1.hit_half, g1.value)];
    let a0: std::sync::Arc<dyn Grid> = std::sync::Arc::new(g0);
    let a1: std::sync::Arc<dyn Grid> = std::sync::Arc::new(g1);
    let null: bool = nd();
    let op = gridshift_op(null, vec![a0, a1]);
    let ctx = NullCtx;
    // x,y,z in D-SMALL (they take part in the arithmetic), t: all f64 (must be untouched)
    let a = Coor4D([small_f(), small_f(), small_f(), nd()]);
    let b = Coor4D([small_f(), small_f(), small_f(), nd()]);
    let mut data = [a, b];
    let n = fwd(&op, &ctx, &mut data);
    let src = [a, b];
    let hit = first_hit(&gs).or(if null { Some(Coor4D::origin()) } else { None });
    match hit {
        Some(d) => {
            assert!(n == 2);
            for i in 0..2 {
                if nbands == 1 {
                    // geoid: heights are reduced by the geoid undulation, nothing else moves
                    assert!(beq(data[i].0[0], src[i].0[0]) && beq(data[i].0[1], src[i].0[1]));
                    assert!(feq(data[i].0[2], src[i].0[2] - d.0[0]));
                } else {
                    // datum shift: the two horizontal bands are added
                    assert!(feq(data[i].0[0], src[i].0[0] + d.0[0]));
                    assert!(feq(data[i].0[1], src[i].0[1] + d.0[1]));
                    assert!(beq(data[i].0[2], src[i].0[2]));
                }
                assert!(beq(data[i].0[3], src[i].0[3]));
            }
        }
        None => {
            assert!(n == 0);
            for i in 0..2 {
                for k in 0..4 {
                    assert!(data[i].0[k].is_nan());
                }
            }
        }
    }
    kani::cover!(n == 2);
    kani::cover!(n == 0);
}

// @harness c10_gridshift_fwd_geoid prop=C10 tier=quick cap=1200 stubs="M-BTREE, S-GRID, S-ACC(boolean)" bound="2 one-band S-GRID grids (arbitrary containment, values in D-SMALL), 2 tuples (x,y,z in D-SMALL, t all f64), null-grid flag symbolic: subtract band 0 from the height, first-hit grid, count honest, failed => all NaN, other elements bit-identical"
#[kani::proof]
#[kani::stub(ParsedParameters::boolean, acc_boolean)]
#[kani::unwind(12)]
fn c10_gridshift_fwd_geoid() {
    gridshift_fwd_case(1);
}

// @harness c10_gridshift_fwd_datum prop=C10 tier=quick cap=1200 stubs="M-BTREE, S-GRID, S-ACC(boolean)" bound="as c10_gridshift_fwd_geoid with two-band grids: add bands 0,1 to x,y; z,t bit-identical"
#[kani::proof]
#[kani::stub(ParsedParameters::boolean, acc_boolean)]
#[kani::unwind(12)]
fn c10_gridshift_fwd_datum() {
    gridshift_fwd_case(2);
}

// Inverse direction: whatever the grids answer and whether or not the iteration converges,
// a tuple is either counted, or it is NaN; it is never returned looking valid yet uncounted.
fn gridshift_inv_case(nbands: usize) {
    let g0 = any_anygrid(nbands);
    let a0: std::sync::Arc<dyn Grid> = std::sync::Arc::new(g0);
    let null: bool = nd();
    let op = gridshift_op(null, vec![a0]);
    let ctx = NullCtx;
    let a = Coor4D([small_f(), small_f(), small_f(), small_f()]);
    let mut data = [a];
    let n = inv(&op, &ctx, &mut data);
    assert!(n <= 1);
    if n == 0 {
        for k in 0..4 {
            assert!(data[0].0[k].is_nan());
        }
    } else {
        // a counted tuple carries a result, not NaN (all values here are small integers, so an
        // honest result is finite), and the time coordinate is not the operator's business
        assert!(!data[0].0[0].is_nan() && !data[0].0[1].is_nan() && !data[0].0[2].is_nan());
        assert!(feq(data[0].0[3], a.0[3]));
    }
    kani::cover!(n == 1);
    kani::cover!(n == 0);
}

// @harness c10_gridshift_inv_geoid prop=C10 tier=quick cap=1200 stubs="M-BTREE, S-GRID, S-ACC(boolean), S-UF-SMALL(f64::hypot)" bound="1 one-band S-GRID grid, 1 tuple in D-SMALL, null flag symbolic: count <= 1, uncounted => all NaN, counted => not NaN and t unchanged"
#[kani::proof]
#[kani::stub(ParsedParameters::boolean, acc_boolean)]
#[kani::stub(f64::hypot, uf_binary_nonneg)]
#[kani::unwind(12)]
fn c10_gridshift_inv_geoid() {
    gridshift_inv_case(1);
}

// @harness c10_gridshift_inv_datum prop=C10 tier=quick cap=1200 stubs="M-BTREE, S-GRID, S-ACC(boolean), S-UF-SMALL(f64::hypot)" bound="1 two-band S-GRID grid (same answer at every lookup), 1 tuple in D-SMALL, iteration unwound to its coded limit 10, convergence test uninterpreted: count <= 1, uncounted => all NaN, counted => not NaN and t unchanged"
#[kani::proof]
#[kani::stub(ParsedParameters::boolean, acc_boolean)]
#[kani::stub(f64::hypot, uf_binary_nonneg)]
#[kani::unwind(12)]
fn c10_gridshift_inv_datum() {
    gridshift_inv_case(2);
}

// Inverse with a grid that answers arbitrarily per lookup (S-GRID-SEQ): the iteration may start
// inside the grid and wander off, converge late, or never converge.
// @harness c10_gridshift_inv_wandering prop=C10 tier=quick cap=1500 stubs="M-BTREE, S-GRID-SEQ (arbitrary answer per lookup), S-ACC(boolean), S-UF-SMALL(f64::hypot)" bound="1 two-band grid answering arbitrarily at each of up to 24 lookups (value in D-SMALL), 1 tuple in D-SMALL, null flag symbolic, iteration unwound to its limit 10: count <= 1; uncounted => all NaN; counted => not NaN"
#[kani::proof]
#[kani::stub(ParsedParameters::boolean, acc_boolean)]
#[kani::stub(f64::hypot, uf_binary_nonneg)]
#[kani::unwind(26)]
fn c10_gridshift_inv_wandering() {
    let hit: [bool; 24] = nd();
    let g = SeqGrid { nbands: 2, hit, value: Coor4D([small_f(), small_f(), 0., 0.]) };
    let a0: std::sync::Arc<dyn Grid> = std::sync::Arc::new(g);
    let null: bool = nd();
    let op = gridshift_op(null, vec![a0]);
    let ctx = NullCtx;
    let a = Coor4D([small_f(), small_f(), small_f(), small_f()]);
    let mut data = [a];
    unsafe {
        SEQ_CALLS = 0;
    }
    let n = inv(&op, &ctx, &mut data);
    assert!(n <= 1);
    if n == 0 {
        for k in 0..4 {
            assert!(data[0].0[k].is_nan());
        }
    } else {
        assert!(!data[0].0[0].is_nan() && !data[0].0[1].is_nan() && !data[0].0[2].is_nan());
    }
    kani::cover!(n == 1);
    kani::cover!(n == 0);
}
