// C10 — the unsupported inverse of a one-way operator (`InnerOp::default()`, the placeholder)
// reports zero successes and leaves the data untouched, whatever the data.

// @harness c10_oneway_inverse_placeholder prop=C10 tier=quick cap=600 stubs="M-BTREE" bound="2 tuples, all f64: the placeholder kernel returns 0 and every bit is unchanged; through Op::apply(Inv) of an operator built without an inverse likewise"
#[kani::proof]
#[kani::unwind(6)]
fn c10_oneway_inverse_placeholder() {
    let ctx = NullCtx;
    let a = any_c4();
    let b = any_c4();
    let mut d = [a, b];
    let op = mk_op(std::mem::ManuallyDrop::into_inner(mk_params_s("oneway")), InnerOp::default(), InnerOp::default());
    assert!(noop_placeholder(&op, &ctx, &mut d) == 0);
    assert!(beq4(&d[0], &a) && beq4(&d[1], &b));
    // an operator constructed with `inv: None` gets the placeholder as its inverse
    let mut one = std::mem::ManuallyDrop::new(Op {
        descriptor: mk_descriptor(InnerOp::default(), InnerOp::default(), false, false),
        params: std::mem::ManuallyDrop::into_inner(mk_params_s("oneway")),
        steps: Vec::new(),
        id: nil_handle(),
    });
    one.descriptor.inv = None::<InnerOp>.unwrap_or_default();
    assert!(one.apply(&ctx, &mut d, Direction::Inv) == 0);
    assert!(beq4(&d[0], &a) && beq4(&d[1], &b));
    kani::cover!(true);
}
