// C13 / C10 — the noop aliases leave all data untouched and count every tuple; the placeholder
// used for the missing inverse of a one-way operator reports zero and touches nothing.

// @harness c13_noop_untouched prop=C13 tier=quick cap=600 stubs="M-BTREE" bound="2 tuples, all f64, both directions: bit-identical, count = n"
#[kani::proof]
#[kani::unwind(6)]
fn c13_noop_untouched() {
    let op = mk_op(std::mem::ManuallyDrop::into_inner(mk_params_s("noop")), InnerOp(fwd), InnerOp(inv));
    let ctx = NullCtx;
    let a = any_c4();
    let b = any_c4();
    let mut d = [a, b];
    assert!(fwd(&op, &ctx, &mut d) == 2);
    assert!(inv(&op, &ctx, &mut d) == 2);
    assert!(op.apply(&ctx, &mut d, Direction::Fwd) == 2);
    assert!(op.apply(&ctx, &mut d, Direction::Inv) == 2);
    assert!(beq4(&d[0], &a) && beq4(&d[1], &b));
    kani::cover!(true);
}

