// C13 — merc: apply-time parameter conventions as relations between two runs of the same
// kernel (libm uninterpreted but consistent, S-UF-SMALL): x_0,y_0 are ADDED to the forward
// result; lon_0 (degrees) is equivalent to subtracting it from the input longitude; k_0 scales
// the unshifted result linearly; the inverse undoes the false origin.
// Note: under S-UF-SMALL the semi-major axis stays the real GRS80 value; factors are chosen so
// that the compared products are formed in the same order on both sides.

fn merc_op(k: f64, x: f64, y: f64, lat: f64, lon: f64) -> MOp {
    let mut p = mk_params_s("merc");
    set_acc(&mut p, k, x, y, lat, lon);
    mk_op(std::mem::ManuallyDrop::into_inner(p), InnerOp(fwd), InnerOp(inv))
}

fn run_fwd(k: f64, x: f64, y: f64, lon0: f64, at: Coor4D) -> Coor4D {
    let op = merc_op(k, x, y, 0., lon0);
    let ctx = NullCtx;
    let mut d = [at];
    assert!(fwd(&op, &ctx, &mut d) == 1);
    d[0]
}

// @harness c13_merc_false_origin_added prop=C13 tier=quick cap=1200 stubs="M-BTREE, S-ACC(k,x,y,lat,lon,ellps), S-UF-SMALL(tan, asinh, sin, atanh)" bound="x_0, y_0 in D-SMALL, k_0 = 1, lon_0 = 0, input (lon, lat) in D-SMALL, z,t all f64: forward(x_0,y_0) == forward(0,0) + (x_0,y_0); z,t bit-identical"
#[kani::proof]
#[kani::stub(ParsedParameters::k, acc_k)]
#[kani::stub(ParsedParameters::x, acc_x)]
#[kani::stub(ParsedParameters::y, acc_y)]
#[kani::stub(ParsedParameters::lat, acc_lat)]
#[kani::stub(ParsedParameters::lon, acc_lon)]
#[kani::stub(ParsedParameters::ellps, stub_ellps_default)]
#[kani::stub(f64::tan, uf_unary)]
#[kani::stub(f64::asinh, uf_unary)]
#[kani::stub(f64::sin, uf_unary)]
#[kani::stub(f64::atanh, uf_unary)]
#[kani::unwind(12)]
fn c13_merc_false_origin_added() {
    let (x0, y0) = (small_f(), small_f());
    let at = Coor4D([small_f(), small_f(), nd(), nd()]);
    let plain = run_fwd(1., 0., 0., 0., at);
    let shifted = run_fwd(1., x0, y0, 0., at);
    assert!(feq(shifted.0[0], plain.0[0] + x0));
    assert!(feq(shifted.0[1], plain.0[1] + y0));
    assert!(beq(shifted.0[2], at.0[2]) && beq(shifted.0[3], at.0[3]));
    kani::cover!(x0 != 0. && y0 != 0.);
}

// @harness c13_merc_lon0_degrees prop=C13 tier=quick cap=1200 stubs="M-BTREE, S-ACC(k,x,y,lat,lon,ellps), S-UF-SMALL(tan, asinh, sin, atanh)" bound="lon_0 in D-SMALL degrees, input (lon, lat) in D-SMALL: forward(lon_0 = L) at lon == forward(lon_0 = 0) at lon - L*pi/180 (easting numerically equal)"
#[kani::proof]
#[kani::stub(ParsedParameters::k, acc_k)]
#[kani::stub(ParsedParameters::x, acc_x)]
#[kani::stub(ParsedParameters::y, acc_y)]
#[kani::stub(ParsedParameters::lat, acc_lat)]
#[kani::stub(ParsedParameters::lon, acc_lon)]
#[kani::stub(ParsedParameters::ellps, stub_ellps_default)]
#[kani::stub(f64::tan, uf_unary)]
#[kani::stub(f64::asinh, uf_unary)]
#[kani::stub(f64::sin, uf_unary)]
#[kani::stub(f64::atanh, uf_unary)]
#[kani::unwind(12)]
fn c13_merc_lon0_degrees() {
    let l = small_f();
    let at = Coor4D([small_f(), small_f(), 0., 0.]);
    let centred = run_fwd(1., 0., 0., l, at);
    let moved = run_fwd(1., 0., 0., 0., Coor4D([at.0[0] - l.to_radians(), at.0[1], 0., 0.]));
    assert!(feq(centred.0[0], moved.0[0]));
    kani::cover!(l != 0.);
}

// @harness c13_merc_inverse_undoes_false_origin prop=C13 tier=quick cap=1200 stubs="M-BTREE, S-ACC(k,x,y,lat,lon,ellps), S-UF-SMALL(sinh, atan, atanh, exp, sqrt)" bound="x_0 in D-SMALL, k_0 = 1, lon_0 = 0, easting in D-SMALL: the longitude recovered by inverse(x_0) from easting e + x_0 equals the longitude recovered by inverse(0) from e"
#[kani::proof]
#[kani::stub(ParsedParameters::k, acc_k)]
#[kani::stub(ParsedParameters::x, acc_x)]
#[kani::stub(ParsedParameters::y, acc_y)]
#[kani::stub(ParsedParameters::lat, acc_lat)]
#[kani::stub(ParsedParameters::lon, acc_lon)]
#[kani::stub(ParsedParameters::ellps, stub_ellps_default)]
#[kani::stub(f64::sinh, uf_unary)]
#[kani::stub(f64::atan, uf_unary)]
#[kani::stub(f64::atanh, uf_unary)]
#[kani::stub(f64::exp, uf_unary_nonneg)]
#[kani::stub(f64::sqrt, uf_unary_nonneg)]
#[kani::unwind(12)]
fn c13_merc_inverse_undoes_false_origin() {
    let x0 = small_f();
    let e = small_f();
    let ctx = NullCtx;
    let op0 = merc_op(1., 0., 0., 0., 0.);
    let mut d0 = [Coor4D([e, 0., 0., 0.])];
    assert!(inv(&op0, &ctx, &mut d0) == 1);
    let op1 = merc_op(1., x0, 0., 0., 0.);
    let mut d1 = [Coor4D([e + x0, 0., 0., 0.])];
    assert!(inv(&op1, &ctx, &mut d1) == 1);
    assert!(feq(d0[0].0[0], d1[0].0[0]));
    kani::cover!(x0 != 0.);
}
