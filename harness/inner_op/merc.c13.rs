// C13 — merc: apply-time parameter conventions as relations between two runs of the same
// kernel (libm uninterpreted but consistent, S-UF-SMALL): x_0,y_0 are ADDED to the forward
// result; lon_0 (degrees) is equivalent to subtracting it from the input longitude; k_0 scales
// the unshifted result linearly; the inverse undoes the false origin.
// Note: under S-UF-SMALL the semi-major axis stays the real GRS80 value; factors are chosen so
// that the compared products are formed in the same order on both sides.

fn merc_op(k: f64, x: f64, y: f64, lat: f64, lon: f64) -> MOp {
    let mut p = mk_params_s("merc");
    set_acc(&mut p, k, x, y, lat, lon);
    mk_op(std::mem::ManuallyDrop::into_inner(p), InnerOp(fwd), InnerOp(inv))
}

fn run_fwd(k: f64, x: f64, y: f64, lon0: f64, at: Coor4D) -> Coor4D {
    let op = merc_op(k, x, y, 0., lon0);
    let ctx = NullCtx;
    let mut d = [at];
    assert!(fwd(&op, &ctx, &mut d) == 1);
    d[0]
}

// @harness c13_merc_false_origin_added prop=C13 tier=quick cap=1200 stubs="M-BTREE, S-ACC(k,x,y,lat,lon,ellps), S-UF-SMALL(tan, asinh, sin, atanh)" bound="x_0, y_0 in D-SMALL, k_0 = 1, lon_0 = 0, input (lon, lat) in D-SMALL, z,t all f64: forward(x_0,y_0) == forward(0,0) + (x_0,y_0); z,t bit-identical"
#[kani::proof]
#[kani::stub(ParsedParameters::k, acc_k)]
#[kani::stub(ParsedParameters::x, acc_x)]
#[kani::stub(ParsedParameters::y, acc_y)]
#[kani::stub(ParsedParameters::lat, acc_lat)]
#[kani::stub(ParsedParameters::lon, acc_lon)]
#[kani::stub(ParsedParameters::ellps, stub_ellps_default)]
#[kani::stub(f64::tan, uf_unary)]
#[kani::stub(f64::asinh, uf_unary)]
#[kani::stub(f64::sin, uf_unary)]
#[kani::stub(f64::atanh, uf_unary)]
#[kani::unwind(12)]
fn c13_merc_false_origin_added() {
    let (x0, y0) = (small_f(), small_f());
    let at = Coor4D([small_f(), small_f(), nd(), nd()]);
    let plain = run_fwd(1., 0., 0., 0., at);
    let shifted = run_fwd(1., x0, y0, 0., at);
    assert!(feq(shifted.0[0], plain.0[0] + x0));
    assert!(feq(shifted.0[1], plain.0[1] + y0));
    assert!(beq(shifted.0[2], at.0[2]) && beq(shifted.0[3], at.0[3]));
    kani::cover!(x0 != 0. && y0 != 0.);
}

// @harness c13_merc_lon0_degrees prop=C13 tier=quick cap=1200 stubs="M-BTREE, S-ACC(k,x,y,lat,lon,ellps), S-UF-SMALL(tan, asinh, sin, atanh)" bound="lon_0 in D-SMALL degrees, input (lon, lat) in D-SMALL: forward(lon_0 = L) at lon == forward(lon_0 = 0) at lon - L*pi/180 (easting numerically equal)"
#[kani::proof]
#[kani::stub(ParsedParameters::k, acc_k)]
#[kani::stub(ParsedParameters::x, acc_x)]
#[kani::stub(ParsedParameters::y, acc_y)]
#[kani::stub(ParsedParameters::lat, acc_lat)]
#[kani::stub(ParsedParameters::lon, acc_lon)]
#[kani::stub(ParsedParameters::ellps, stub_ellps_default)]
#[kani::stub(f64::tan, uf_unary)]
#[kani::stub(f64::asinh, uf_unary)]
#[kani::stub(f64::sin, uf_unary)]
#[kani::stub(f64::atanh, uf_unary)]
#[kani::unwind(12)]
fn c13_merc_lon0_degrees() {
    let l = small_f();
    let at = Coor4D([small_f(), small_f(), 0., 0.]);
    let centred = run_fwd(1., 0., 0., l, at);
    let moved = run_fwd(1., 0., 0., 0., Coor4D([at.0[0] - l.to_radians(), at.0[1], 0., 0.]));
    assert!(feq(centred.0[0], moved.0[0]));
    kani::cover!(l != 0.);
}

// @harness c13_merc_inverse_undoes_false_origin prop=C13 tier=quick cap=1200 stubs="M-BTREE, S-ACC(k,x,y,lat,lon,ellps), S-UF-SMALL(sinh, atan, atanh, exp, sqrt)" bound="x_0 in D-SMALL, k_0 = 1, lon_0 = 0, easting in D-SMALL: the longitude recovered by inverse(x_0) from easting e + x_0 equals the longitude recovered by inverse(0) from e"
#[kani::proof]
#[kani::stub(ParsedParameters::k, acc_k)]
#[kani::stub(ParsedParameters::x, acc_x)]
#[kani::stub(ParsedParameters::y, acc_y)]
#[kani::stub(ParsedParameters::lat, acc_lat)]
#[kani::stub(ParsedParameters::lon, acc_lon)]
#[kani::stub(ParsedParameters::ellps, stub_ellps_default)]
#[kani::stub(f64::sinh, uf_unary)]
#[kani::stub(f64::atan, uf_unary)]
#[kani::stub(f64::atanh, uf_unary)]
#[kani::stub(f64::exp, uf_unary_nonneg)]
#[kani::stub(f64::sqrt, uf_unary_nonneg)]
#[kani::unwind(12)]
fn c13_merc_inverse_undoes_false_origin() {
    let x0 = small_f();
    let e = small_f();
    let ctx = NullCtx;
    let op0 = merc_op(1., 0., 0., 0., 0.);
    let mut d0 = [Coor4D([e, 0., 0., 0.])];
    assert!(inv(&op0, &ctx, &mut d0) == 1);
    let op1 = merc_op(1., x0, 0., 0., 0.);
    let mut d1 = [Coor4D([e + x0, 0., 0., 0.])];
    assert!(inv(&op1, &ctx, &mut d1) == 1);
    assert!(feq(d0[0].0[0], d1[0].0[0]));
    kani::cover!(x0 != 0.);
}

// ---- `merc::new` with the text front end stubbed (S-PPNEW): "lat_ts is equivalent to the
// corresponding k_0": for EVERY non-zero latitude of true scale (north or south) the constructor
// replaces k_0 by cos(lat_ts)/sqrt(1 - e^2 sin^2(lat_ts)); lat_ts = 0 leaves k_0 alone;
// |lat_ts| > 90 is refused.
static mut M_LAT_TS: f64 = 0.0;
static mut M_K0: f64 = 1.0;

fn stub_pp_new(_parameters: &RawParameters, _gamut: &[OpParameter]) -> Result<ParsedParameters, Error> {
    let mut p = mk_params("merc");
    unsafe {
        p.real.insert("lat_ts", M_LAT_TS);
        p.real.insert("k_0", M_K0);
    }
    Ok(p)
}

fn stub_descriptor_new(_definition: &str, fwd: InnerOp, inv: Option<InnerOp>) -> OpDescriptor {
    let invertible = inv.is_some();
    mk_descriptor(fwd, inv.unwrap_or_default(), invertible, false)
}

fn mk_raw_real(lat_ts: f64, k0: f64) -> RawParameters {
    RawParameters::new(&format!("merc lat_ts={lat_ts} k_0={k0}"), &BTreeMap::new())
}

fn mk_raw_dummy(_lat_ts: f64, _k0: f64) -> RawParameters {
    RawParameters::default()
}

// @harness c13_merc_lat_ts_sets_k0 prop=C13 tier=quick cap=1200 nomem=yes ignore=dealloc stubs="M-BTREE, S-PPNEW(ParsedParameters::new), OpDescriptor::new (no tokenisation), Uuid::new_v4 = nil, ParsedParameters::ellps = GRS80, S-UF-SMALL(sin_cos, sqrt)" bound="lat_ts = 15*j degrees for j in -7..=7 (symbolic; +-105 must be refused), k_0 in {1,2,3,4}: stored k_0 == cos/sqrt(1 - e^2 sin^2) of lat_ts for every non-zero lat_ts of either sign, unchanged for lat_ts = 0"
#[kani::proof]
#[kani::stub(ParsedParameters::new, stub_pp_new)]
#[kani::stub(ParsedParameters::ellps, stub_ellps_default)]
#[kani::stub(OpDescriptor::new, stub_descriptor_new)]
#[kani::stub(uuid::Uuid::new_v4, stub_uuid)]
#[kani::stub(f64::sin_cos, uf_sin_cos)]
#[kani::stub(f64::sqrt, uf_unary_nonneg)]
#[kani::stub(mk_raw_real, mk_raw_dummy)]
#[kani::unwind(12)]
fn c13_merc_lat_ts_sets_k0() {
    let j: i8 = nd();
    // |lat_ts| = 105 is refused (that path drops the half-built parameter set: the allocator-model
    // assertions it trips are ignored for this harness, see DESIGN 9.2 item 8)
    kani::assume(j >= -7 && j <= 7);
    let lat_ts = j as f64 * 15.;
    let k0 = small_pos();
    unsafe {
        M_LAT_TS = lat_ts;
        M_K0 = k0;
    }
    let raw = std::mem::ManuallyDrop::new(mk_raw_real(lat_ts, k0));
    let ctx = NullCtx;
    let r = std::mem::ManuallyDrop::new(new(&raw, &ctx));
    if lat_ts.abs() > 90. {
        assert!(r.is_err());
    } else {
        assert!(r.is_ok());
        if let Ok(ref op) = *r {
            let stored = *op.params.real.get("k_0").unwrap();
            if lat_ts == 0. {
                assert!(feq(stored, k0));
            } else {
                let sc = lat_ts.to_radians().sin_cos();
                let es = Ellipsoid::default().eccentricity_squared();
                let want = sc.1 / (1. - es * sc.0 * sc.0).sqrt();
                assert!(feq(stored, want));
            }
        }
    }
    kani::cover!(j < 0 && j >= -6);
    kani::cover!(j == 7);
}
