// C03 — the executed pipeline is the fold of its steps, in order, inverted by reversal.
//
// A pipeline `Op` with N in {0,1,2,3} steps is built by struct literal. Step k carries marker
// kernels F_k / I_k that are exact, mutually inverse and pairwise NON-commuting on bit
// patterns (x -> rotl(bits(x), k+1) ^ C_k on element 0), and reports an arbitrary success
// count <= n. Per step `inverted`, `omit_fwd`, `omit_inv` are symbolic. The oracle is the
// fold written from the property text:
//   forward : k = 0..N   skip if omit_fwd, else apply (inverted ? I_k : F_k)
//   inverse : k = N..0   skip if omit_inv, else apply (inverted ? F_k : I_k)
//   count   : min over the executed steps, operands.len() if none executed
// All 2^(3N) flag placements x all operand bit patterns are decided in one query.

const NOPS: usize = 2;
const C: [u64; 3] = [0x9E37_79B9_7F4A_7C15, 0xC2B2_AE3D_27D4_EB4F, 0x1656_67B1_9E37_79F9];
static mut COUNT_F: [usize; 3] = [0; 3];
static mut COUNT_I: [usize; 3] = [0; 3];

fn mark(x: f64, k: usize) -> f64 {
    f64::from_bits(x.to_bits().rotate_left(k as u32 + 1) ^ C[k])
}

fn unmark(x: f64, k: usize) -> f64 {
    f64::from_bits((x.to_bits() ^ C[k]).rotate_right(k as u32 + 1))
}

fn mark_fwd<const K: usize>(_op: &Op, _ctx: &dyn Context, operands: &mut dyn CoordinateSet) -> usize {
    for i in 0..operands.len() {
        let mut c = operands.get_coord(i);
        c[0] = mark(c[0], K);
        operands.set_coord(i, &c);
    }
    unsafe { COUNT_F[K] }
}

fn mark_inv<const K: usize>(_op: &Op, _ctx: &dyn Context, operands: &mut dyn CoordinateSet) -> usize {
    for i in 0..operands.len() {
        let mut c = operands.get_coord(i);
        c[0] = unmark(c[0], K);
        operands.set_coord(i, &c);
    }
    unsafe { COUNT_I[K] }
}

struct Flags {
    inverted: bool,
    omit_fwd: bool,
    omit_inv: bool,
}

fn mk_step<const K: usize>(f: &Flags) -> Op {
    let mut p = mk_params_s("mark");
    if f.omit_fwd {
        p.boolean.insert("omit_fwd");
    }
    if f.omit_inv {
        p.boolean.insert("omit_inv");
    }
    Op {
        descriptor: mk_descriptor(InnerOp(mark_fwd::<K>), InnerOp(mark_inv::<K>), true, f.inverted),
        params: std::mem::ManuallyDrop::into_inner(p),
        steps: Vec::new(),
        id: nil_handle(),
    }
}

fn any_flags() -> Flags {
    Flags { inverted: nd(), omit_fwd: nd(), omit_inv: nd() }
}

fn init_counts() {
    unsafe {
        for k in 0..3 {
            COUNT_F[k] = nd();
            COUNT_I[k] = nd();
            kani::assume(COUNT_F[k] <= NOPS && COUNT_I[k] <= NOPS);
        }
    }
}

fn oracle(flags: &[Flags], ops: &mut [Coor4D; NOPS], forward: bool) -> usize {
    let n = flags.len();
    let mut count = usize::MAX;
    for s in 0..n {
        let k = if forward { s } else { n - 1 - s };
        let f = &flags[k];
        if (forward && f.omit_fwd) || (!forward && f.omit_inv) {
            continue;
        }
        // a step with the inv modifier has its two directions exchanged
        let use_fwd_kernel = forward != f.inverted;
        for i in 0..NOPS {
            ops[i].0[0] = if use_fwd_kernel { mark(ops[i].0[0], k) } else { unmark(ops[i].0[0], k) };
        }
        let c = unsafe { if use_fwd_kernel { COUNT_F[k] } else { COUNT_I[k] } };
        count = count.min(c);
    }
    if count == usize::MAX {
        count = NOPS;
    }
    count
}

/// A `Vec<Op>` over a local array (never dropped or grown): reads of `steps[k].descriptor.fwd`
/// then resolve to constants during symbolic execution; through a heap vector CBMC keeps
/// every kernel of the crate with the InnerOp signature as a feasible call target.
fn steps_vec<const N: usize>(arr: &mut [Op; N]) -> Vec<Op> {
    unsafe { Vec::from_raw_parts(arr.as_mut_ptr(), N, N) }
}

fn run_case(steps: Vec<Op>, flags: &[Flags]) {
    let pipe = std::mem::ManuallyDrop::new(Op {
        descriptor: mk_descriptor(InnerOp(pipeline_fwd), InnerOp(pipeline_inv), true, false),
        params: std::mem::ManuallyDrop::into_inner(mk_params_s("pipeline")),
        steps,
        id: nil_handle(),
    });
    let ctx = NullCtx;
    let ops0 = [any_c4(), any_c4()];
    // forward
    let mut got = ops0;
    let mut want = ops0;
    let n = pipeline_fwd(&pipe, &ctx, &mut got);
    let m = oracle(flags, &mut want, true);
    assert!(n == m);
    for i in 0..NOPS {
        assert!(beq4(&got[i], &want[i]));
    }
    // inverse
    let mut got = ops0;
    let mut want = ops0;
    let n = pipeline_inv(&pipe, &ctx, &mut got);
    let m = oracle(flags, &mut want, false);
    assert!(n == m);
    for i in 0..NOPS {
        assert!(beq4(&got[i], &want[i]));
    }
    // through Op::apply with the pipeline itself inverted: directions exchanged
    let mut pipe = pipe;
    pipe.descriptor.inverted = true;
    let mut got = ops0;
    let mut want = ops0;
    let n = pipe.apply(&ctx, &mut got, Direction::Fwd);
    let m = oracle(flags, &mut want, false);
    assert!(n == m);
    for i in 0..NOPS {
        assert!(beq4(&got[i], &want[i]));
    }
    kani::cover!(true);
    std::mem::forget(pipe);
}

// @harness c03_fold_n0 prop=C03 tier=quick stubs="M-BTREE" bound="0 steps, 2 operands, all f64"
#[kani::proof]
#[kani::unwind(12)]
fn c03_fold_n0() {
    init_counts();
    run_case(Vec::new(), &[]);
}

// @harness c03_fold_n1 prop=C03 tier=quick stubs="M-BTREE" bound="1 step, all 8 flag placements symbolic, 2 operands, all f64, counts <= n symbolic"
#[kani::proof]
#[kani::unwind(12)]
fn c03_fold_n1() {
    init_counts();
    let flags = [any_flags()];
    let mut arr = std::mem::ManuallyDrop::new([mk_step::<0>(&flags[0])]);
    run_case(steps_vec(&mut *arr), &flags);
    std::mem::forget(arr);
}

// @harness c03_fold_n2 prop=C03 tier=quick stubs="M-BTREE" bound="2 steps, all 64 flag placements symbolic, 2 operands, all f64, counts symbolic"
#[kani::proof]
#[kani::unwind(12)]
fn c03_fold_n2() {
    init_counts();
    let flags = [any_flags(), any_flags()];
    let mut arr = std::mem::ManuallyDrop::new([mk_step::<0>(&flags[0]), mk_step::<1>(&flags[1])]);
    run_case(steps_vec(&mut *arr), &flags);
    std::mem::forget(arr);
}

// @harness c03_fold_n3 prop=C03 tier=quick cap=900 stubs="M-BTREE" bound="3 steps, all 512 flag placements symbolic, 2 operands, all f64, counts symbolic"
#[kani::proof]
#[kani::unwind(12)]
fn c03_fold_n3() {
    init_counts();
    let flags = [any_flags(), any_flags(), any_flags()];
    let mut arr = std::mem::ManuallyDrop::new([mk_step::<0>(&flags[0]), mk_step::<1>(&flags[1]), mk_step::<2>(&flags[2])]);
    run_case(steps_vec(&mut *arr), &flags);
    std::mem::forget(arr);
}

// ---- routing of the stack steps through the pipeline: a step named "stack" / "push" / "pop"
// is executed by the pipeline itself (fresh stack per application), forward and - with push and
// pop exchanged and the program reversed - inverse. Documented example (Rumination 002):
// `stack push=1,2 | stack pop=1,2` swaps the first two coordinate elements; so does its inverse.
fn stack_step(action: &'static str, args: Vec<f64>) -> Op {
    let mut p = mk_params_s("stack");
    p.text.insert("action", sstring(action));
    p.series.insert(action, args);
    Op {
        descriptor: mk_descriptor(InnerOp::default(), InnerOp::default(), true, false),
        params: std::mem::ManuallyDrop::into_inner(p),
        steps: Vec::new(),
        id: nil_handle(),
    }
}

fn legacy_step(name: &'static str, flags: [&'static str; 2]) -> Op {
    let mut p = mk_params_s(name);
    p.boolean.insert(flags[0]);
    p.boolean.insert(flags[1]);
    Op {
        descriptor: mk_descriptor(InnerOp::default(), InnerOp::default(), true, false),
        params: std::mem::ManuallyDrop::into_inner(p),
        steps: Vec::new(),
        id: nil_handle(),
    }
}

fn pipe_of(steps: Vec<Op>) -> std::mem::ManuallyDrop<Op> {
    std::mem::ManuallyDrop::new(Op {
        descriptor: mk_descriptor(InnerOp(pipeline_fwd), InnerOp(pipeline_inv), true, false),
        params: std::mem::ManuallyDrop::into_inner(mk_params_s("pipeline")),
        steps,
        id: nil_handle(),
    })
}

// @harness c03_stack_routing prop=C03 tier=quick cap=1200 stubs="M-BTREE, core::result::unwrap_failed" bound="pipeline `stack push=1,2 | stack pop=1,2`, 2 tuples all f64, both directions, applied twice: elements 1,2 swapped, others untouched, count = n; the stack does not leak into the second application"
#[kani::proof]
#[kani::stub(core::result::unwrap_failed, stub_unwrap_failed)]
#[kani::unwind(12)]
fn c03_stack_routing() {
    let mut arr = std::mem::ManuallyDrop::new([stack_step("push", vec![1., 2.]), stack_step("pop", vec![1., 2.])]);
    let pipe = pipe_of(steps_vec(&mut *arr));
    let ctx = NullCtx;
    let a = any_c4();
    let b = any_c4();
    let fwd: bool = nd();
    let mut d = [a, b];
    let n = if fwd { pipeline_fwd(&pipe, &ctx, &mut d) } else { pipeline_inv(&pipe, &ctx, &mut d) };
    assert!(n == 2);
    assert!(beq(d[0].0[0], a.0[1]) && beq(d[0].0[1], a.0[0]) && beq(d[0].0[2], a.0[2]) && beq(d[0].0[3], a.0[3]));
    assert!(beq(d[1].0[0], b.0[1]) && beq(d[1].0[1], b.0[0]) && beq(d[1].0[2], b.0[2]) && beq(d[1].0[3], b.0[3]));
    // a second application starts from an empty stack again: same effect, back to the original
    let n = if fwd { pipeline_fwd(&pipe, &ctx, &mut d) } else { pipeline_inv(&pipe, &ctx, &mut d) };
    assert!(n == 2);
    assert!(beq4(&d[0], &a) && beq4(&d[1], &b));
    kani::cover!(fwd);
    kani::cover!(!fwd);
}

// @harness c03_legacy_routing prop=C03 tier=quick cap=1200 stubs="M-BTREE" bound="pipeline `push v_1 v_2 | pop v_1 v_2` (legacy steps), 2 tuples all f64, both directions: identity, count = n; a lone `pop v_1` underflows: element NaN, count 0"
#[kani::proof]
#[kani::unwind(12)]
fn c03_legacy_routing() {
    let mut arr = std::mem::ManuallyDrop::new([legacy_step("push", ["v_1", "v_2"]), legacy_step("pop", ["v_1", "v_2"])]);
    let pipe = pipe_of(steps_vec(&mut *arr));
    let ctx = NullCtx;
    let a = any_c4();
    let b = any_c4();
    let fwd: bool = nd();
    let mut d = [a, b];
    let n = if fwd { pipeline_fwd(&pipe, &ctx, &mut d) } else { pipeline_inv(&pipe, &ctx, &mut d) };
    assert!(n == 2);
    assert!(beq4(&d[0], &a) && beq4(&d[1], &b));
    // underflow: a pop with nothing on the (fresh) stack
    let mut arr1 = std::mem::ManuallyDrop::new([legacy_step("pop", ["v_1", "v_1"])]);
    let lone = pipe_of(steps_vec(&mut *arr1));
    let mut d = [a, b];
    let n = pipeline_fwd(&lone, &ctx, &mut d);
    assert!(n == 0);
    assert!(d[0].0[0].is_nan() && d[1].0[0].is_nan());
    kani::cover!(fwd);
}
