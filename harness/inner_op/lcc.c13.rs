// C13 — "a one-parallel lcc equals the two-parallel lcc with both parallels equal": two runs of
// `lcc::new` with the text front end stubbed (S-PPNEW), once with lat_2 absent (its default is
// NaN) and once with lat_2 = lat_1, libm uninterpreted but consistent (S-UF-SMALL): every stored
// constant (lat_0, lat_1, lat_2, lon_0, n, c, rho0) must be identical, whether or not lat_0 is given.

static mut L_LAT1: f64 = 0.;
static mut L_LAT2: f64 = f64::NAN;
static mut L_LAT0: f64 = f64::NAN;
static mut L_LON0: f64 = 0.;

fn stub_pp_new(_parameters: &RawParameters, _gamut: &[OpParameter]) -> Result<ParsedParameters, Error> {
    let mut p = mk_params("lcc");
    unsafe {
        p.real.insert("lat_1", L_LAT1);
        p.real.insert("lat_2", L_LAT2);
        p.real.insert("lat_0", L_LAT0);
        p.real.insert("lon_0", L_LON0);
    }
    Ok(p)
}

fn stub_descriptor_new(_definition: &str, fwd: InnerOp, inv: Option<InnerOp>) -> OpDescriptor {
    let invertible = inv.is_some();
    mk_descriptor(fwd, inv.unwrap_or_default(), invertible, false)
}

fn lat_from_map(p: &ParsedParameters, index: usize) -> f64 {
    const KEYS: [&str; 4] = ["lat_0", "lat_1", "lat_2", "lat_3"];
    *p.real.get(KEYS[index]).unwrap_or(&0.)
}

fn fmt_opt(key: &str, v: f64) -> String {
    if v.is_nan() {
        String::new()
    } else {
        format!(" {key}={v}")
    }
}

fn mk_raw_real(lat1: f64, lat2: f64, lat0: f64, lon0: f64) -> RawParameters {
    let s = format!("lcc lat_1={lat1}{}{} lon_0={lon0}", fmt_opt("lat_2", lat2), fmt_opt("lat_0", lat0));
    RawParameters::new(&s, &BTreeMap::new())
}

fn mk_raw_dummy(_a: f64, _b: f64, _c: f64, _d: f64) -> RawParameters {
    RawParameters::default()
}

fn build(lat1: f64, lat2: f64, lat0: f64, lon0: f64) -> std::mem::ManuallyDrop<Result<Op, Error>> {
    unsafe {
        L_LAT1 = lat1;
        L_LAT2 = lat2;
        L_LAT0 = lat0;
        L_LON0 = lon0;
    }
    let raw = std::mem::ManuallyDrop::new(mk_raw_real(lat1, lat2, lat0, lon0));
    let ctx = NullCtx;
    std::mem::ManuallyDrop::new(new(&raw, &ctx))
}

// @harness c13_lcc_one_parallel_equals_two_equal prop=C13 tier=thorough cap=3600 may_timeout=yes btree_cap=12 nomem=yes ignore=dealloc stubs="M-BTREE(CAP 12), S-PPNEW(ParsedParameters::new), ParsedParameters::lat (map lookup without format!), ParsedParameters::ellps = GRS80, OpDescriptor::new, Uuid::new_v4 = nil, S-UF-SMALL(sin_cos, sin, cos, tan, ln, ln_1p, exp_m1, powf, sqrt, exp, atan, atanh, asinh, sinh, cosh, hypot, atan2); allocator-model assertions on error paths ignored" bound="lat_1 = 15*j degrees, j in 1..=5 (symbolic), lon_0 in D-SMALL degrees, lat_0 absent or 15*k degrees (symbolic): lcc(lat_1) and lcc(lat_1, lat_2 = lat_1) succeed or fail together and store identical lat_0, lat_1, lat_2, lon_0, n, c, rho0"
#[kani::proof]
#[kani::stub(ParsedParameters::new, stub_pp_new)]
#[kani::stub(ParsedParameters::lat, lat_from_map)]
#[kani::stub(ParsedParameters::ellps, stub_ellps_default)]
#[kani::stub(OpDescriptor::new, stub_descriptor_new)]
#[kani::stub(uuid::Uuid::new_v4, stub_uuid)]
#[kani::stub(f64::sin_cos, uf_sin_cos)]
#[kani::stub(f64::sin, uf_unary)]
#[kani::stub(f64::cos, uf_unary)]
#[kani::stub(f64::tan, uf_unary)]
#[kani::stub(f64::ln, uf_unary)]
#[kani::stub(f64::powf, uf_binary)]
#[kani::stub(f64::sqrt, uf_unary_nonneg)]
#[kani::stub(f64::exp, uf_unary_nonneg)]
#[kani::stub(f64::atan, uf_unary)]
#[kani::stub(f64::ln_1p, uf_unary)]
#[kani::stub(f64::exp_m1, uf_unary)]
#[kani::stub(f64::atanh, uf_unary)]
#[kani::stub(f64::asinh, uf_unary)]
#[kani::stub(f64::sinh, uf_unary)]
#[kani::stub(f64::cosh, uf_unary_nonneg)]
#[kani::stub(f64::hypot, uf_binary_nonneg)]
#[kani::stub(f64::atan2, uf_binary)]
#[kani::stub(mk_raw_real, mk_raw_dummy)]
#[kani::unwind(14)]
fn c13_lcc_one_parallel_equals_two_equal() {
    let j: u8 = nd();
    kani::assume(j >= 1 && j <= 5);
    let lat1 = j as f64 * 15.;
    let lon0 = small_f();
    let given: bool = nd();
    let k: i8 = nd();
    kani::assume(k >= -5 && k <= 5);
    let lat0 = if given { k as f64 * 15. } else { f64::NAN };
    let one = build(lat1, f64::NAN, lat0, lon0);
    let two = build(lat1, lat1, lat0, lon0);
    assert!(one.is_ok() == two.is_ok());
    if let (Ok(a), Ok(b)) = (&*one, &*two) {
        for key in ["lat_0", "lat_1", "lat_2", "lon_0", "n", "c", "rho0"] {
            let (x, y) = (a.params.real.get(key), b.params.real.get(key));
            assert!(x.is_some() && y.is_some());
            assert!(beq(*x.unwrap(), *y.unwrap()));
        }
    }
    kani::cover!(one.is_ok() && !given);
}
