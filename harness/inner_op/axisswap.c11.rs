// C11 — axisswap: every signed partial permutation of 1..=4 axes, as documented in
// Rumination 002: `order=a1,..,aL`: output element k (k<L) is input element |a_k| with the
// sign of a_k; elements L.. are untouched; the inverse is the reverse mapping.
// `order` is symbolic under the validity predicate of `axisswap::new` (integers, 1<=|a|<=L,
// no duplicate axes); L is concrete per harness. All f64 tuple values.

fn any_order<const L: usize>() -> [f64; L] {
    let mut o = [0f64; L];
    let mut seen = [false; 4];
    for k in 0..L {
        let a: i8 = nd();
        kani::assume(a != 0 && a >= -(L as i8) && a <= L as i8);
        let ax = (a.unsigned_abs() - 1) as usize;
        kani::assume(!seen[ax]);
        seen[ax] = true;
        o[k] = a as f64;
    }
    o
}

fn neg_if(x: f64, neg: bool) -> f64 {
    if neg {
        -x
    } else {
        x
    }
}

fn axisswap_case<const L: usize>() {
    let order = any_order::<L>();
    let mut p = mk_params_s("axisswap");
    p.series.insert("order", Vec::from(order));
    let op = mk_op(std::mem::ManuallyDrop::into_inner(p), InnerOp(fwd), InnerOp(inv));
    let ctx = NullCtx;
    let a = any_c4();
    let b = any_c4();
    let mut data = [a, b];
    let n = fwd(&op, &ctx, &mut data);
    assert!(n == 2);
    let src = [a, b];
    for i in 0..2 {
        for k in 0..4 {
            if k < L {
                let ax = (order[k].abs() - 1.) as usize;
                assert!(beq(data[i].0[k], neg_if(src[i].0[ax], order[k] < 0.)));
            } else {
                assert!(beq(data[i].0[k], src[i].0[k]));
            }
        }
    }
    // inverse: the reverse mapping, exactly
    let mut back = [a, b];
    let n = inv(&op, &ctx, &mut back);
    assert!(n == 2);
    for i in 0..2 {
        for k in 0..L {
            let ax = (order[k].abs() - 1.) as usize;
            assert!(beq(back[i].0[ax], neg_if(src[i].0[k], order[k] < 0.)));
        }
        for k in L..4 {
            assert!(beq(back[i].0[k], src[i].0[k]));
        }
    }
    // inverse undoes forward bit for bit
    let mut rt = data;
    inv(&op, &ctx, &mut rt);
    assert!(beq4(&rt[0], &a) && beq4(&rt[1], &b));
    kani::cover!(true);
}

// @harness c11_axisswap_l1 prop=C11 tier=quick stubs="M-BTREE" bound="order of length 1 (symbolic, valid), 2 tuples, all f64"
#[kani::proof]
#[kani::unwind(8)]
fn c11_axisswap_l1() {
    axisswap_case::<1>();
}

// @harness c11_axisswap_l2 prop=C11 tier=quick stubs="M-BTREE" bound="order of length 2 (all 8 signed permutations, symbolic), 2 tuples, all f64"
#[kani::proof]
#[kani::unwind(8)]
fn c11_axisswap_l2() {
    axisswap_case::<2>();
}

// @harness c11_axisswap_l3 prop=C11 tier=quick stubs="M-BTREE" bound="order of length 3 (all 48 signed permutations, symbolic), 2 tuples, all f64"
#[kani::proof]
#[kani::unwind(8)]
fn c11_axisswap_l3() {
    axisswap_case::<3>();
}

// @harness c11_axisswap_l4 prop=C11 tier=quick cap=900 stubs="M-BTREE" bound="order of length 4 (all 384 signed permutations, symbolic), 2 tuples, all f64"
#[kani::proof]
#[kani::unwind(8)]
fn c11_axisswap_l4() {
    axisswap_case::<4>();
}

// @harness c11_axisswap_default prop=C11 tier=quick stubs="M-BTREE" bound="no order given: identity, count = n, all f64"
#[kani::proof]
#[kani::unwind(8)]
fn c11_axisswap_default() {
    let p = mk_params_s("axisswap");
    let op = mk_op(std::mem::ManuallyDrop::into_inner(p), InnerOp(fwd), InnerOp(inv));
    let ctx = NullCtx;
    let a = any_c4();
    let mut data = [a];
    assert!(fwd(&op, &ctx, &mut data) == 1);
    assert!(inv(&op, &ctx, &mut data) == 1);
    assert!(beq4(&data[0], &a));
    kani::cover!(true);
}
