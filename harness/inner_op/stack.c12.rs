// C12 — the stack sub-language against the abstract machine of Rumination 002.
//
// One inductive step per instruction from an ARBITRARY stack state: depth D is concrete per
// harness instance (0..4 quick), the contents of every column and of the operands are
// symbolic (all f64 bit patterns), the instruction arguments are symbolic within the ranges
// the constructor `stack::new` admits (indices 1..=4; roll (m,n) integers with |n| < m).
// Representation invariant assumed: every stack column has as many rows as there are
// operands (established by stack_push / do_the_push, which are themselves checked here).
//
// Abstract machine (transcribed from ruminations/002-rumination.md, "Operator stack"):
//   push a1..ak : for j=1..k push column a_j              (a_k ends as TOS)
//   pop  a1..ak : underflow if depth<k (all operands NaN, 0); else for j=1..k: pop TOS into a_j
//   flip a1..ak : underflow as pop; else for j=1..k exchange element a_j with the j'th from top
//   roll m,n    : n<0 => n+=m; underflow if m>depth; the top m: n upper <-> m-n lower
//   unroll m,n  : == roll m,m-n
//   swap        : exchange TOS and 2OS (depth<2: unspecified, left alone here)
//   inverse     : push<->pop with reversed lists, roll<->unroll, swap/flip unchanged

const N: usize = 2; // operands per set in these harnesses

fn mk_stack<const D: usize>(vals: &[[f64; N]; D]) -> Vec<Vec<f64>> {
    let mut stack: Vec<Vec<f64>> = Vec::with_capacity(D + 4);
    for i in 0..D {
        stack.push(vec![vals[i][0], vals[i][1]]);
    }
    stack
}

fn any_vals<const D: usize>() -> [[f64; N]; D] {
    nd()
}

fn any_ops() -> [Coor4D; N] {
    [any_c4(), any_c4()]
}

fn any_index() -> usize {
    let a: usize = nd();
    kani::assume(a >= 1 && a <= 4);
    a
}

fn all_nan(ops: &[Coor4D; N]) -> bool {
    let mut ok = true;
    for i in 0..N {
        for k in 0..4 {
            ok &= ops[i].0[k].is_nan();
        }
    }
    ok
}

fn col_eq(col: &Vec<f64>, v: &[f64; N]) -> bool {
    col.len() == N && beq(col[0], v[0]) && beq(col[1], v[1])
}

// ---------------------------------------------------------------------------- push

fn push_step<const D: usize, const K: usize>() {
    let vals = any_vals::<D>();
    let mut stack = mk_stack::<D>(&vals);
    let ops0 = any_ops();
    let mut ops = ops0;
    let mut args = [0usize; K];
    for j in 0..K {
        args[j] = any_index();
    }
    let r = stack_push(&mut stack, &mut ops, &args);
    assert!(r == N);
    assert!(stack.len() == D + K);
    for i in 0..D {
        assert!(col_eq(&stack[i], &vals[i]));
    }
    for j in 0..K {
        let want = [ops0[0].0[args[j] - 1], ops0[1].0[args[j] - 1]];
        assert!(col_eq(&stack[D + j], &want));
    }
    for i in 0..N {
        assert!(beq4(&ops[i], &ops0[i]));
    }
    kani::cover!(true);
    std::mem::forget(stack);
}

// @harness c12_push_d0_k2 prop=C12 tier=quick btree=no bound="depth 0, 2 pushes, 2 operands, contents all f64, indices 1..4"
#[kani::proof]
#[kani::unwind(8)]
fn c12_push_d0_k2() {
    push_step::<0, 2>();
}

// @harness c12_push_d2_k3 prop=C12 tier=quick btree=no bound="depth 2, 3 pushes, 2 operands"
#[kani::proof]
#[kani::unwind(8)]
fn c12_push_d2_k3() {
    push_step::<2, 3>();
}

// @harness c12_push_d3_k4 prop=C12 tier=thorough btree=no bound="depth 3, 4 pushes, 2 operands"
#[kani::proof]
#[kani::unwind(8)]
fn c12_push_d3_k4() {
    push_step::<3, 4>();
}

// ---------------------------------------------------------------------------- pop

fn pop_step<const D: usize, const K: usize>() {
    let vals = any_vals::<D>();
    let mut stack = mk_stack::<D>(&vals);
    let ops0 = any_ops();
    let mut ops = ops0;
    let mut args = [0usize; K];
    for j in 0..K {
        args[j] = any_index();
    }
    let r = stack_pop(&mut stack, &mut ops, &args);
    if D < K {
        assert!(r == 0);
        assert!(all_nan(&ops));
    } else {
        assert!(r == N);
        assert!(stack.len() == D - K);
        for i in 0..(D - K) {
            assert!(col_eq(&stack[i], &vals[i]));
        }
        // abstract machine: sequential pops, later writes to the same element win
        let mut want = ops0;
        for j in 0..K {
            for i in 0..N {
                want[i].0[args[j] - 1] = vals[D - 1 - j][i];
            }
        }
        for i in 0..N {
            assert!(beq4(&ops[i], &want[i]));
        }
    }
    kani::cover!(true);
    std::mem::forget(stack);
}

// @harness c12_pop_d0_k1 prop=C12 tier=quick btree=no bound="depth 0, 1 pop (underflow)"
#[kani::proof]
#[kani::unwind(8)]
fn c12_pop_d0_k1() {
    pop_step::<0, 1>();
}

// @harness c12_pop_d1_k2 prop=C12 tier=quick btree=no bound="depth 1, 2 pops (underflow)"
#[kani::proof]
#[kani::unwind(8)]
fn c12_pop_d1_k2() {
    pop_step::<1, 2>();
}

// @harness c12_pop_d2_k3 prop=C12 tier=quick btree=no bound="depth 2, 3 pops (underflow on a non-empty stack)"
#[kani::proof]
#[kani::unwind(8)]
fn c12_pop_d2_k3() {
    pop_step::<2, 3>();
}

// @harness c12_pop_d3_k2 prop=C12 tier=quick btree=no bound="depth 3, 2 pops"
#[kani::proof]
#[kani::unwind(8)]
fn c12_pop_d3_k2() {
    pop_step::<3, 2>();
}

// @harness c12_pop_d4_k4 prop=C12 tier=quick btree=no bound="depth 4, 4 pops"
#[kani::proof]
#[kani::unwind(8)]
fn c12_pop_d4_k4() {
    pop_step::<4, 4>();
}

// @harness c12_pop_d3_k4 prop=C12 tier=thorough btree=no bound="depth 3, 4 pops (underflow)"
#[kani::proof]
#[kani::unwind(8)]
fn c12_pop_d3_k4() {
    pop_step::<3, 4>();
}

// ---------------------------------------------------------------------------- flip

fn flip_step<const D: usize, const K: usize>() {
    let vals = any_vals::<D>();
    let mut stack = mk_stack::<D>(&vals);
    let ops0 = any_ops();
    let mut ops = ops0;
    let mut args = [0usize; K];
    for j in 0..K {
        args[j] = any_index();
    }
    let r = stack_flip(&mut stack, &mut ops, &args);
    if D < K {
        assert!(r == 0);
        assert!(all_nan(&ops));
    } else {
        assert!(r == N);
        assert!(stack.len() == D);
        let mut want = ops0;
        let mut wstack = vals;
        for j in 0..K {
            for i in 0..N {
                let t = want[i].0[args[j] - 1];
                want[i].0[args[j] - 1] = wstack[D - 1 - j][i];
                wstack[D - 1 - j][i] = t;
            }
        }
        for i in 0..N {
            assert!(beq4(&ops[i], &want[i]));
        }
        for i in 0..D {
            assert!(col_eq(&stack[i], &wstack[i]));
        }
    }
    kani::cover!(true);
    std::mem::forget(stack);
}

// @harness c12_flip_d0_k1 prop=C12 tier=quick btree=no bound="depth 0, 1 flip (underflow)"
#[kani::proof]
#[kani::unwind(8)]
fn c12_flip_d0_k1() {
    flip_step::<0, 1>();
}

// @harness c12_flip_d1_k2 prop=C12 tier=quick btree=no bound="depth 1, 2 flips (underflow on a NON-empty stack)"
#[kani::proof]
#[kani::unwind(8)]
fn c12_flip_d1_k2() {
    flip_step::<1, 2>();
}

// @harness c12_flip_d2_k3 prop=C12 tier=quick btree=no bound="depth 2, 3 flips (underflow on a non-empty stack)"
#[kani::proof]
#[kani::unwind(8)]
fn c12_flip_d2_k3() {
    flip_step::<2, 3>();
}

// @harness c12_flip_d2_k2 prop=C12 tier=quick btree=no bound="depth 2, 2 flips"
#[kani::proof]
#[kani::unwind(8)]
fn c12_flip_d2_k2() {
    flip_step::<2, 2>();
}

// @harness c12_flip_d4_k3 prop=C12 tier=quick btree=no bound="depth 4, 3 flips"
#[kani::proof]
#[kani::unwind(8)]
fn c12_flip_d4_k3() {
    flip_step::<4, 3>();
}

// @harness c12_flip_d3_k4 prop=C12 tier=thorough btree=no bound="depth 3, 4 flips (underflow)"
#[kani::proof]
#[kani::unwind(8)]
fn c12_flip_d3_k4() {
    flip_step::<3, 4>();
}

// ---------------------------------------------------------------------------- roll

fn roll_step<const D: usize>(m: i64) {
    let vals = any_vals::<D>();
    let mut stack = mk_stack::<D>(&vals);
    let ops0 = any_ops();
    let mut ops = ops0;
    let n: i64 = nd();
    kani::assume(m >= 1 && m <= 6);
    kani::assume(n > -m && n < m);
    let r = stack_roll(&mut stack, &mut ops, &[m, n]);
    let mu = m as usize;
    if mu > D {
        assert!(r == 0);
        assert!(all_nan(&ops));
    } else {
        assert!(r == N);
        assert!(stack.len() == D);
        let nn = (if n < 0 { m + n } else { n }) as usize;
        let base = D - mu;
        for k in 0..D {
            if k < base {
                assert!(col_eq(&stack[k], &vals[k]));
            } else {
                // the n upper elements of the sub-stack end up below the m-n lower ones
                let kk = k - base;
                let src = if kk < nn { mu - nn + kk } else { kk - nn };
                assert!(col_eq(&stack[k], &vals[base + src]));
            }
        }
        for i in 0..N {
            assert!(beq4(&ops[i], &ops0[i]));
        }
    }
    kani::cover!(true);
    std::mem::forget(stack);
}

// @harness c12_roll_d0 prop=C12 tier=quick btree=no bound="depth 0 (underflow), (m,n) symbolic, |n|<m<=6"
#[kani::proof]
#[kani::unwind(9)]
fn c12_roll_d0() {
    roll_step::<0>(nd());
}

// @harness c12_roll_d2_m1 prop=C12 tier=quick btree=no bound="depth 2, m=1, n symbolic |n|<m, contents all f64"
#[kani::proof]
#[kani::unwind(9)]
fn c12_roll_d2_m1() {
    roll_step::<2>(1);
}

// @harness c12_roll_d2_m2 prop=C12 tier=quick btree=no bound="depth 2, m=2, n symbolic |n|<m"
#[kani::proof]
#[kani::unwind(9)]
fn c12_roll_d2_m2() {
    roll_step::<2>(2);
}

// @harness c12_roll_d2_m3 prop=C12 tier=quick btree=no bound="depth 2, m=3 (underflow), n symbolic"
#[kani::proof]
#[kani::unwind(9)]
fn c12_roll_d2_m3() {
    roll_step::<2>(3);
}

// @harness c12_roll_d3_m2 prop=C12 tier=quick btree=no bound="depth 3, m=2, n symbolic |n|<m"
#[kani::proof]
#[kani::unwind(9)]
fn c12_roll_d3_m2() {
    roll_step::<3>(2);
}

// @harness c12_roll_d3_m3 prop=C12 tier=quick btree=no bound="depth 3, m=3, n symbolic |n|<m"
#[kani::proof]
#[kani::unwind(9)]
fn c12_roll_d3_m3() {
    roll_step::<3>(3);
}

// @harness c12_roll_d4_m3 prop=C12 tier=thorough btree=no bound="depth 4, m=3, n symbolic |n|<m"
#[kani::proof]
#[kani::unwind(9)]
fn c12_roll_d4_m3() {
    roll_step::<4>(3);
}

// @harness c12_roll_d4_m4 prop=C12 tier=thorough btree=no bound="depth 4, m=4, n symbolic |n|<m"
#[kani::proof]
#[kani::unwind(9)]
fn c12_roll_d4_m4() {
    roll_step::<4>(4);
}

// @harness c12_roll_d3_msym prop=C12 tier=thorough btree=no may_timeout=yes bound="depth 3, (m,n) both symbolic, |n|<m<=6"
#[kani::proof]
#[kani::unwind(9)]
fn c12_roll_d3_msym() {
    roll_step::<3>(nd());
}

// The document's own example rows, run through the real primitives (self-check of the
// harness' reading of the tables): roll=3,-2 / 3,1 / 3,2 on 1,2,3,4.
// @harness c12_roll_doc_rows prop=C12 tier=quick btree=no bound="concrete rows of Rumination 002"
#[kani::proof]
#[kani::unwind(9)]
fn c12_roll_doc_rows() {
    let mut ops = any_ops();
    let rows: [([i64; 2], [f64; 4]); 4] = [
        ([3, -2], [1., 4., 2., 3.]),
        ([3, 1], [1., 4., 2., 3.]),
        ([3, 2], [1., 3., 4., 2.]),
        ([4, 2], [3., 4., 1., 2.]),
    ];
    for (args, want) in rows {
        let mut stack = vec![vec![1., 1.], vec![2., 2.], vec![3., 3.], vec![4., 4.]];
        let r = stack_roll(&mut stack, &mut ops, &args);
        assert!(r == N);
        for k in 0..4 {
            assert!(stack[k][0] == want[k] && stack[k][1] == want[k]);
        }
        std::mem::forget(stack);
    }
    kani::cover!(true);
}

