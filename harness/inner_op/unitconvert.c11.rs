// C11 — unitconvert: every supported unit name resolves to its own published factor, and the
// kernels multiply (forward) / divide (inverse) x,y by in/out and z likewise, t untouched.

// @harness c11_units_resolve_own_factor prop=C11 tier=quick btree=no bound="all 24 table rows (symbolic row index): get_pivot_multiplier(name(row)) == multiplier(row)"
#[kani::proof]
#[kani::unwind(26)]
fn c11_units_resolve_own_factor() {
    let i: usize = nd();
    kani::assume(i < LINEAR_UNITS.len() + ANGULAR_UNITS.len());
    let (name, mult) = if i < LINEAR_UNITS.len() {
        (LINEAR_UNITS[i].name(), LINEAR_UNITS[i].multiplier())
    } else {
        let k = i - LINEAR_UNITS.len();
        (ANGULAR_UNITS[k].name(), ANGULAR_UNITS[k].multiplier())
    };
    let got = get_pivot_multiplier(name);
    assert!(got.is_some());
    assert!(got.unwrap() == mult);
    kani::cover!(i == 23);
}

fn unit_op(k: [f64; 4]) -> MOp {
    let mut p = mk_params_s("unitconvert");
    p.real.insert("xy_in_to_pivot", k[0]);
    p.real.insert("pivot_to_xy_out", k[1]);
    p.real.insert("z_in_to_pivot", k[2]);
    p.real.insert("pivot_to_z_out", k[3]);
    mk_op(std::mem::ManuallyDrop::into_inner(p), InnerOp(fwd), InnerOp(inv))
}

// @harness c11_unitconvert_kernel prop=C11 tier=quick cap=900 stubs="M-BTREE" bound="factors in {1..4} (symbolic), tuple elements in D-SMALL, 2 tuples; t all f64"
#[kani::proof]
#[kani::unwind(20)]
fn c11_unitconvert_kernel() {
    let k = [small_pos(), small_pos(), small_pos(), small_pos()];
    let op = unit_op(k);
    let ctx = NullCtx;
    let t0: f64 = nd();
    let t1: f64 = nd();
    let a = Coor4D([small_f(), small_f(), small_f(), t0]);
    let b = Coor4D([small_f(), small_f(), small_f(), t1]);
    let mut data = [a, b];
    assert!(fwd(&op, &ctx, &mut data) == 2);
    let xy = k[0] * k[1];
    let z = k[2] * k[3];
    let src = [a, b];
    for i in 0..2 {
        assert!(beq(data[i].0[0], src[i].0[0] * xy));
        assert!(beq(data[i].0[1], src[i].0[1] * xy));
        assert!(beq(data[i].0[2], src[i].0[2] * z));
        assert!(beq(data[i].0[3], src[i].0[3]));
    }
    let mut back = [a, b];
    assert!(inv(&op, &ctx, &mut back) == 2);
    for i in 0..2 {
        assert!(beq(back[i].0[0], src[i].0[0] / xy));
        assert!(beq(back[i].0[1], src[i].0[1] / xy));
        assert!(beq(back[i].0[2], src[i].0[2] / z));
        assert!(beq(back[i].0[3], src[i].0[3]));
    }
    kani::cover!(true);
}
