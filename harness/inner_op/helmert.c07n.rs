// C07 — `helmert::new`, numbers symbolic, text machinery stubbed (S-PPNEW): the constructor's own
// arithmetic (alias selection, unit conversions, folding of a fixed observation epoch) is run by
// the solver; `ParsedParameters::new` is replaced by a stub that returns the typed parameter set
// the text front end would deliver for harness-chosen numbers, `OpDescriptor::new` by a stub
// that skips the tokenisation of the definition text, `Uuid::new_v4` by the nil id.
//
// Obligation (property text): "fixing t_obs is equivalent to giving every tuple that epoch":
// the parameter set stored for `t_obs = O` is T + (O - t_epoch)*DT, S + (O - t_epoch)*DS.

static mut N_REAL: [(&'static str, f64); 18] = [("", 0.); 18];

fn stub_pp_new(_parameters: &RawParameters, _gamut: &[OpParameter]) -> Result<ParsedParameters, Error> {
    let mut p = mk_params("helmert");
    unsafe {
        for k in 0..18 {
            p.real.insert(N_REAL[k].0, N_REAL[k].1);
        }
    }
    p.series.insert("translation", vec![0., 0., 0.]);
    p.series.insert("velocity", vec![0., 0., 0.]);
    p.series.insert("rotation", vec![0., 0., 0.]);
    p.series.insert("angular_velocity", vec![0., 0., 0.]);
    p.text.insert("convention", String::new());
    Ok(p)
}

/// The definition text carrying the same numbers: used by the native replay, where the stubs are
/// not applied and the real text front end parses it back to exactly these (small integer) values.
/// Under Kani this function is itself replaced by `mk_raw_dummy` (the stubbed front end ignores it).
fn mk_raw_real(vals: &[(&'static str, f64); 18]) -> RawParameters {
    let mut s = String::from("helmert");
    for (k, v) in vals.iter() {
        s += &format!(" {k}={v}");
    }
    RawParameters::new(&s, &BTreeMap::new())
}

fn mk_raw_dummy(_vals: &[(&'static str, f64); 18]) -> RawParameters {
    RawParameters::default()
}

fn stub_descriptor_new(_definition: &str, fwd: InnerOp, inv: Option<InnerOp>) -> OpDescriptor {
    let invertible = inv.is_some();
    mk_descriptor(fwd, inv.unwrap_or_default(), invertible, false)
}

// @harness c07_new_t_obs_folding prop=C07 tier=thorough cap=3600 may_timeout=yes btree_cap=20 stubs="M-BTREE(CAP 20), S-PPNEW(ParsedParameters::new -> typed set for harness numbers), OpDescriptor::new (no tokenisation), Uuid::new_v4 = nil" bound="x, dx, s (ppm), ds, t_epoch, t_obs in D-TINY (y=2, dy=1, z=dz=0 concrete), no rotation: stored T == T + (t_obs - t_epoch)*DT and stored S == 1 + s*1e-6 + (t_obs - t_epoch)*ds*1e-6; fixed_time flag set"
#[kani::proof]
#[kani::stub(ParsedParameters::new, stub_pp_new)]
#[kani::stub(OpDescriptor::new, stub_descriptor_new)]
#[kani::stub(uuid::Uuid::new_v4, stub_uuid)]
#[kani::stub(mk_raw_real, mk_raw_dummy)]
#[kani::unwind(30)]
fn c07_new_t_obs_folding() {
    // one translation component and its rate symbolic, the other two concrete: the three are
    // treated by one loop, the scale by a separate statement
    let (x, y, z) = (tiny_f(), 2., 0.);
    let (dx, dy, dz) = (tiny_f(), 1., 0.);
    let (s, ds) = (tiny_f(), tiny_f());
    let (epoch, t_obs) = (tiny_f(), tiny_f());
    unsafe {
        N_REAL = [
            ("x", x), ("y", y), ("z", z), ("dx", dx), ("dy", dy), ("dz", dz),
            ("rx", 0.), ("ry", 0.), ("rz", 0.), ("drx", 0.), ("dry", 0.), ("drz", 0.),
            ("scale", 0.), ("s", s), ("scale_trend", 0.), ("ds", ds),
            ("t_epoch", epoch), ("t_obs", t_obs),
        ];
    }
    // a dynamic transformation (otherwise t_obs is not looked at)
    let raw = std::mem::ManuallyDrop::new(mk_raw_real(unsafe { &N_REAL }));
    let ctx = NullCtx;
    let r = std::mem::ManuallyDrop::new(new(&raw, &ctx));
    assert!(r.is_ok());
    if let Ok(ref op) = *r {
        let dt = t_obs - epoch;
        let t = op.params.series("T").unwrap();
        assert!(feq(t[0], x + dx * dt) && feq(t[1], y + dy * dt) && feq(t[2], z + dz * dt));
        let want_s = (1.0 + s * 1e-6) + (ds * 1e-6) * dt;
        assert!(feq(op.params.real("S").unwrap(), want_s));
        assert!(op.params.boolean("fixed_time") && op.params.boolean("dynamic"));
    }
    kani::cover!(ds != 0. && t_obs != epoch);
}
