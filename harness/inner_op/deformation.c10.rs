// C10 / C02 / C08 — deformation operator with S-GRID grids.
// Stubs: S-UF-SMALL for the libm calls of GeoCart::geographic (its result only selects the
// lookup position, which S-GRID ignores; the epoch passes through untouched), rotate_and_integrate_velocity = duration * v (a fixed
// linear stand-in: the rotation is libm, the obligations are about which grid, which epoch and
// which tuple feed the correction), ParsedParameters::ellps = GRS80, S-ACC flags.

fn stub_integrate(v: Coor4D, _lon: f64, _lat: f64, duration: f64) -> Coor4D {
    Coor4D([duration * v[0], duration * v[1], duration * v[2], 0.0])
}

struct DP {
    dt: f64,
    epoch: f64,
    raw: bool,
    null: bool,
}

fn deformation_op(p: &DP, grids: Vec<std::sync::Arc<dyn Grid>>) -> MOp {
    let mut pp = mk_params_s("deformation");
    pp.real.insert("dt", p.dt);
    pp.real.insert("t_epoch", p.epoch);
    set_flag(&mut pp, "raw", p.raw);
    set_flag(&mut pp, "null_grid", p.null);
    pp.grids = grids;
    mk_op(std::mem::ManuallyDrop::into_inner(pp), InnerOp(fwd), InnerOp(inv))
}

fn expected(gs: &[(bool, bool, Coor4D)], c: &Coor4D, p: &DP, forward: bool) -> Option<Coor4D> {
    // first grid containing the point, then first within the half-cell margin
    let mut v: Option<Coor4D> = None;
    for g in gs {
        if v.is_none() && g.0 {
            v = Some(g.2);
        }
    }
    for g in gs {
        if v.is_none() && g.1 {
            v = Some(g.2);
        }
    }
    match v {
        Some(v) => {
            // the same library calls as the kernel makes: under Kani they hit the same stubs, in a
            // native replay they are the real functions
            let geo = Ellipsoid::default().geographic(c);
            let d = if p.dt.is_finite() { p.dt } else { p.epoch - geo[3] };
            let v = if forward { v.scale(-1.) } else { v };
            let def = rotate_and_integrate_velocity(v, geo[0], geo[1], d);
            Some(*c + def)
        }
        None => {
            if p.null {
                Some(*c)
            } else {
                None
            }
        }
    }
}

fn deformation_case(forward: bool) {
    let g0 = any_anygrid(3);
    let g1 = any_anygrid(3);
    let gs = [(g0.hit0, g0.hit_half, g0.value), (g1.hit0, g1.hit_half, g1.value)];
    let a0: std::sync::Arc<dyn Grid> = std::sync::Arc::new(g0);
    let a1: std::sync::Arc<dyn Grid> = std::sync::Arc::new(g1);
    let use_dt: bool = nd();
    let p = DP { dt: if use_dt { tiny_f() } else { f64::NAN }, epoch: tiny_f(), raw: false, null: nd() };
    let op = deformation_op(&p, vec![a0, a1]);
    let ctx = NullCtx;
    let a = tiny_c4();
    let b = tiny_c4();
    let mut data = [a, b];
    let n = if forward { fwd(&op, &ctx, &mut data) } else { inv(&op, &ctx, &mut data) };
    let src = [a, b];
    let mut count = 0;
    for i in 0..2 {
        match expected(&gs, &src[i], &p, forward) {
            Some(w) => {
                count += 1;
                for k in 0..4 {
                    assert!(feq(data[i].0[k], w.0[k]));
                }
            }
            None => {
                for k in 0..4 {
                    assert!(data[i].0[k].is_nan());
                }
            }
        }
    }
    assert!(n == count);
    kani::cover!(n == 2 && !use_dt && a.0[3] != b.0[3]);
    kani::cover!(n == 0);
}

// @harness c10_deformation_fwd prop=C10 tier=quick cap=1200 stubs="M-BTREE, S-GRID, S-UF-SMALL(atan2, hypot, sqrt, powi inside GeoCart::geographic), rotate_and_integrate_velocity = duration*v, ParsedParameters::ellps = GRS80, S-ACC(boolean)" bound="2 S-GRID grids (arbitrary containment, values in D-SMALL), 2 tuples in D-TINY with arbitrary epochs, dt or t_epoch mode, null-grid flag symbolic: first-hit grid, per-tuple epoch, count honest, failed => NaN"
#[kani::proof]
#[kani::stub(ParsedParameters::boolean, acc_boolean)]
#[kani::stub(ParsedParameters::ellps, stub_ellps_default)]
#[kani::stub(f64::atan2, uf_binary)]
#[kani::stub(f64::hypot, uf_binary_nonneg)]
#[kani::stub(f64::sqrt, uf_unary_nonneg)]
#[kani::stub(f64::powi, uf_powi)]
#[kani::stub(rotate_and_integrate_velocity, stub_integrate)]
#[kani::unwind(18)]
fn c10_deformation_fwd() {
    deformation_case(true);
}

// @harness c10_deformation_inv prop=C10 tier=quick cap=1200 stubs="M-BTREE, S-GRID, S-UF-SMALL(atan2, hypot, sqrt, powi inside GeoCart::geographic), rotate_and_integrate_velocity = duration*v, ParsedParameters::ellps = GRS80, S-ACC(boolean)" bound="as c10_deformation_fwd, inverse direction"
#[kani::proof]
#[kani::stub(ParsedParameters::boolean, acc_boolean)]
#[kani::stub(ParsedParameters::ellps, stub_ellps_default)]
#[kani::stub(f64::atan2, uf_binary)]
#[kani::stub(f64::hypot, uf_binary_nonneg)]
#[kani::stub(f64::sqrt, uf_unary_nonneg)]
#[kani::stub(f64::powi, uf_powi)]
#[kani::stub(rotate_and_integrate_velocity, stub_integrate)]
#[kani::unwind(18)]
fn c10_deformation_inv() {
    deformation_case(false);
}

// ---- C02: batch vs singletons (relational; exact also in a native replay)
fn deformation_independent(forward: bool) {
    let g0 = any_anygrid(3);
    let a0: std::sync::Arc<dyn Grid> = std::sync::Arc::new(g0);
    let use_dt: bool = nd();
    let p = DP { dt: if use_dt { tiny_f() } else { f64::NAN }, epoch: tiny_f(), raw: nd(), null: nd() };
    let op = deformation_op(&p, vec![a0]);
    let ctx = NullCtx;
    let (a, b) = (tiny_c4(), tiny_c4());
    let run = |set: &mut dyn CoordinateSet| if forward { fwd(&op, &ctx, set) } else { inv(&op, &ctx, set) };
    let mut batch = [a, b];
    let n = run(&mut batch);
    let (mut sa, mut sb) = ([a], [b]);
    let (na, nb) = (run(&mut sa), run(&mut sb));
    assert!(n == na + nb);
    assert!(beq4(&batch[0], &sa[0]) && beq4(&batch[1], &sb[0]));
    kani::cover!(n == 2 && !use_dt && a.0[3] != b.0[3]);
}

// @harness c02_deformation_fwd_independent prop=C02 tier=thorough cap=3600 may_timeout=yes stubs="M-BTREE, S-GRID, S-UF-SMALL(atan2, hypot, sqrt, powi), rotate_and_integrate_velocity = duration*v, ParsedParameters::ellps = GRS80, S-ACC(boolean)" bound="1 S-GRID grid, 2 tuples in D-TINY with arbitrary epochs, dt / t_epoch mode, raw and null flags symbolic: batch == singletons, bitwise; counts add"
#[kani::proof]
#[kani::stub(ParsedParameters::boolean, acc_boolean)]
#[kani::stub(ParsedParameters::ellps, stub_ellps_default)]
#[kani::stub(f64::atan2, uf_binary)]
#[kani::stub(f64::hypot, uf_binary_nonneg)]
#[kani::stub(f64::sqrt, uf_unary_nonneg)]
#[kani::stub(f64::powi, uf_powi)]
#[kani::stub(rotate_and_integrate_velocity, stub_integrate)]
#[kani::unwind(18)]
fn c02_deformation_fwd_independent() {
    deformation_independent(true);
}

// @harness c02_deformation_inv_independent prop=C02 tier=quick cap=1200 stubs="M-BTREE, S-GRID, S-UF-SMALL(atan2, hypot, sqrt, powi), rotate_and_integrate_velocity = duration*v, ParsedParameters::ellps = GRS80, S-ACC(boolean)" bound="as c02_deformation_fwd_independent, inverse direction"
#[kani::proof]
#[kani::stub(ParsedParameters::boolean, acc_boolean)]
#[kani::stub(ParsedParameters::ellps, stub_ellps_default)]
#[kani::stub(f64::atan2, uf_binary)]
#[kani::stub(f64::hypot, uf_binary_nonneg)]
#[kani::stub(f64::sqrt, uf_unary_nonneg)]
#[kani::stub(f64::powi, uf_powi)]
#[kani::stub(rotate_and_integrate_velocity, stub_integrate)]
#[kani::unwind(18)]
fn c02_deformation_inv_independent() {
    deformation_independent(false);
}
