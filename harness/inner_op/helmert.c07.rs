// C07 — Helmert: rotation conventions, epochs, the untouched fourth coordinate, inverse.
//
// Apply-time obligations on `helmert_common` / `rotation_matrix`. Parameters are built the way
// `helmert::new` stores them (series T, DT, R, DR, ROTFLAT; reals S, DS, t_epoch; flags).
// libm: `f64::sin_cos` is replaced by S-UF-SMALL, a fixed but arbitrary-looking function of
// the argument bits with values in {-3..3}: the obligations here are about data flow
// (which element goes where, with which sign), never about trigonometry.
// Arithmetic equivalence is decided over D-SMALL (see _common.rs).

fn uf_sin_cos_small(x: f64) -> (f64, f64) {
    let b = x.to_bits();
    let s = ((b ^ (b >> 29) ^ (b >> 52)) % 7) as i8 - 3;
    let c = (((b >> 3) ^ (b >> 31) ^ (b >> 57)) % 7) as i8 - 3;
    (s as f64, c as f64)
}

fn small3() -> [f64; 3] {
    [small_f(), small_f(), small_f()]
}

// @harness c07_rotation_transpose prop=C07 tier=quick btree=no cap=900 stubs="S-UF-SMALL(f64::sin_cos)" bound="r in D-SMALL^3, exact and small-angle modes (symbolic flag): position_vector matrix == transpose of coordinate_frame matrix, bitwise"
#[kani::proof]
#[kani::stub(f64::sin_cos, uf_sin_cos_small)]
#[kani::unwind(6)]
fn c07_rotation_transpose() {
    let r = small3();
    let exact: bool = nd();
    let pv = rotation_matrix(&r, exact, true);
    let cf = rotation_matrix(&r, exact, false);
    for i in 0..3 {
        for j in 0..3 {
            assert!(beq(pv[i][j], cf[j][i]));
        }
    }
    kani::cover!(exact);
    kani::cover!(!exact);
}

// @harness c07_small_angle_matrix prop=C07 tier=quick btree=no cap=900 bound="r in D-SMALL^3, small-angle mode: coordinate_frame matrix == I + skew(r) with the documented signs; position_vector(r) == coordinate_frame(-r) numerically"
#[kani::proof]
#[kani::unwind(6)]
fn c07_small_angle_matrix() {
    let r = small3();
    let cf = rotation_matrix(&r, false, false);
    let want = [[1., r[2], -r[1]], [-r[2], 1., r[0]], [r[1], -r[0], 1.]];
    for i in 0..3 {
        for j in 0..3 {
            assert!(feq(cf[i][j], want[i][j]));
        }
    }
    let pv = rotation_matrix(&r, false, true);
    let cfm = rotation_matrix(&[-r[0], -r[1], -r[2]], false, false);
    for i in 0..3 {
        for j in 0..3 {
            assert!(feq(pv[i][j], cfm[i][j]));
        }
    }
    kani::cover!(true);
}

struct HP {
    t: [f64; 3],
    dt: [f64; 3],
    r: [f64; 3],
    dr: [f64; 3],
    rot: [f64; 9],
    s: f64,
    ds: f64,
    epoch: f64,
    rotated: bool,
    dynamic: bool,
    fixed: bool,
    exact: bool,
    pv: bool,
}

fn helmert_op(h: &HP) -> MOp {
    let mut p = mk_params_s("helmert");
    p.series.insert("T", Vec::from(h.t));
    p.series.insert("DT", Vec::from(h.dt));
    p.series.insert("R", Vec::from(h.r));
    p.series.insert("DR", Vec::from(h.dr));
    p.series.insert("ROTFLAT", Vec::from(h.rot));
    p.real.insert("S", h.s);
    p.real.insert("DS", h.ds);
    p.real.insert("t_epoch", h.epoch);
    set_flag(&mut p, "rotated", h.rotated);
    set_flag(&mut p, "dynamic", h.dynamic);
    set_flag(&mut p, "fixed_time", h.fixed);
    set_flag(&mut p, "exact", h.exact);
    set_flag(&mut p, "position_vector", h.pv);
    mk_op(std::mem::ManuallyDrop::into_inner(p), InnerOp(helmert_fwd), InnerOp(helmert_inv))
}

// @harness c07_fourth_untouched prop=C07 tier=quick cap=900 stubs="M-BTREE, S-ACC(ParsedParameters::boolean), S-UF-SMALL(f64::sin_cos)" bound="all f64 parameters, flags and tuples (fully symbolic), 2 tuples, both directions: element 3 bit-identical, count = n"
#[kani::proof]
#[kani::stub(f64::sin_cos, uf_sin_cos_small)]
#[kani::stub(ParsedParameters::boolean, acc_boolean)]
#[kani::unwind(18)]
fn c07_fourth_untouched() {
    let h = HP {
        t: nd(), dt: nd(), r: nd(), dr: nd(), rot: nd(), s: nd(), ds: nd(), epoch: nd(),
        rotated: nd(), dynamic: nd(), fixed: nd(), exact: nd(), pv: nd(),
    };
    let op = helmert_op(&h);
    let ctx = NullCtx;
    let a = any_c4();
    let b = any_c4();
    let mut data = [a, b];
    let fwd: bool = nd();
    let n = helmert_common(&op, &ctx, &mut data, if fwd { Direction::Fwd } else { Direction::Inv });
    assert!(n == 2);
    assert!(beq(data[0].0[3], a.0[3]) && beq(data[1].0[3], b.0[3]));
    kani::cover!(true);
}

/// The specification: parameters evaluated at the tuple's own epoch, P + (t - t_epoch)*dP,
/// written in the operation order of the documentation (T + dt*DT etc.).
fn reference_fwd(h: &HP, c: &Coor4D) -> [f64; 3] {
    let (tt, ss) = if h.dynamic && !h.fixed {
        let dt = c.0[3] - h.epoch;
        ([h.t[0] + dt * h.dt[0], h.t[1] + dt * h.dt[1], h.t[2] + dt * h.dt[2]], h.s + dt * h.ds)
    } else {
        (h.t, h.s)
    };
    [ss * c.0[0] + tt[0], ss * c.0[1] + tt[1], ss * c.0[2] + tt[2]]
}

fn tiny3() -> [f64; 3] {
    [tiny_f(), tiny_f(), tiny_f()]
}

fn unrotated_hp() -> HP {
    HP {
        t: tiny3(), dt: tiny3(), r: [0.; 3], dr: [0.; 3],
        rot: [1., 0., 0., 0., 1., 0., 0., 0., 1.],
        s: tiny_f(), ds: tiny_f(), epoch: tiny_f(),
        rotated: false, dynamic: nd(), fixed: nd(), exact: false, pv: true,
    }
}

// @harness c07_epochs_per_tuple prop=C07 tier=quick cap=900 stubs="M-BTREE, S-ACC(ParsedParameters::boolean)" bound="translation+scale+rates in D-TINY={0..3}, 3 tuples with arbitrary epochs in D-TINY (a,b,a' incl. equal epochs), dynamic/fixed flags symbolic: every output tuple == T+(t-t_epoch)*DT, S+(t-t_epoch)*DS applied to that tuple alone"
#[kani::proof]
#[kani::stub(ParsedParameters::boolean, acc_boolean)]
#[kani::unwind(18)]
fn c07_epochs_per_tuple() {
    let h = unrotated_hp();
    let op = helmert_op(&h);
    let ctx = NullCtx;
    let a = tiny_c4();
    let b = tiny_c4();
    let c = tiny_c4();
    let mut data = [a, b, c];
    let n = helmert_common(&op, &ctx, &mut data, Direction::Fwd);
    assert!(n == 3);
    let src = [a, b, c];
    for i in 0..3 {
        let want = reference_fwd(&h, &src[i]);
        for k in 0..3 {
            assert!(feq(data[i].0[k], want[k]));
        }
    }
    kani::cover!(h.dynamic && !h.fixed && a.0[3] != b.0[3]);
}

// @harness c07_inverse_undoes_forward prop=C07 tier=quick cap=900 stubs="M-BTREE, S-ACC(ParsedParameters::boolean)" bound="unrotated, parameters and one tuple in D-TINY={0..3}, scale != 0: inv(fwd(x)) == x to 1e-9 relative (per-tuple epochs)"
#[kani::proof]
#[kani::stub(ParsedParameters::boolean, acc_boolean)]
#[kani::unwind(18)]
fn c07_inverse_undoes_forward() {
    let h = unrotated_hp();
    let op = helmert_op(&h);
    let ctx = NullCtx;
    let a = tiny_c4();
    // effective scale at this tuple's epoch must not vanish
    let ss = if h.dynamic && !h.fixed { h.s + (a.0[3] - h.epoch) * h.ds } else { h.s };
    kani::assume(ss != 0.);
    let mut data = [a];
    helmert_common(&op, &ctx, &mut data, Direction::Fwd);
    helmert_common(&op, &ctx, &mut data, Direction::Inv);
    for k in 0..3 {
        let d = (data[0].0[k] - a.0[k]).abs();
        assert!(d <= 1e-9 * a.0[k].abs().max(1.0));
    }
    kani::cover!(true);
}

// @harness c07_rotated_uses_matrix prop=C07 tier=quick cap=900 stubs="M-BTREE, S-ACC(ParsedParameters::boolean)" bound="static rotated case, ROTFLAT = concrete matrix with 9 distinct entries, T/S and one tuple in D-SMALL: forward == T + S*(ROT*x); inverse == ROT^T*((x-T)/S), bitwise in the documented operation order"
#[kani::proof]
#[kani::stub(ParsedParameters::boolean, acc_boolean)]
#[kani::unwind(18)]
fn c07_rotated_uses_matrix() {
    // a concrete matrix with nine distinct entries: any index mix-up or missing transposition
    // changes the result for some tuple
    let rot = [1., 2., 3., 4., 5., 6., 7., 8., 10.];
    let h = HP {
        t: small3(), dt: [0.; 3], r: small3(), dr: [0.; 3], rot,
        s: small_pos(), ds: 0., epoch: 0.,
        rotated: true, dynamic: false, fixed: false, exact: false, pv: nd(),
    };
    let op = helmert_op(&h);
    let ctx = NullCtx;
    let a = small_c4();
    let mut data = [a];
    helmert_common(&op, &ctx, &mut data, Direction::Fwd);
    let m = |i: usize, j: usize| rot[3 * i + j];
    for i in 0..3 {
        let x = a.0[0] * m(i, 0) + a.0[1] * m(i, 1) + a.0[2] * m(i, 2);
        assert!(feq(data[0].0[i], h.s * x + h.t[i]));
    }
    let mut back = [a];
    helmert_common(&op, &ctx, &mut back, Direction::Inv);
    let u = [(a.0[0] - h.t[0]) / h.s, (a.0[1] - h.t[1]) / h.s, (a.0[2] - h.t[2]) / h.s];
    for j in 0..3 {
        let x = u[0] * m(0, j) + u[1] * m(1, j) + u[2] * m(2, j);
        assert!(feq(back[0].0[j], x));
    }
    kani::cover!(true);
}

// The exact matrix is the documented product ROTZ*ROTY*ROTX (comment above rotation_matrix),
// for ANY interpretation of sin/cos: with S-UF-SMALL all entries are small integers, so the
// comparison is exact. Catches a wrong sign or a missing/extra second-order term.
// @harness c07_exact_matrix_is_product prop=C07 tier=quick btree=no cap=900 stubs="S-UF-SMALL(f64::sin_cos)" bound="r in (D-SMALL minus 0)^3, exact mode, both conventions: matrix == ROTZ*ROTY*ROTX (coordinate frame) resp. its transpose, sin/cos uninterpreted with values in {-3..3}"
#[kani::proof]
#[kani::stub(f64::sin_cos, uf_sin_cos_small)]
#[kani::unwind(6)]
fn c07_exact_matrix_is_product() {
    let r = small3();
    // generic angles only: sin(0) = 0 would mask, in a native replay, a term that the
    // uninterpreted sin/cos exposes
    kani::assume(r[0] != 0. && r[1] != 0. && r[2] != 0.);
    // under Kani these calls hit the same stub as the ones inside rotation_matrix; in a native
    // replay both are the real sin_cos, and the comparison below holds to rounding
    let (sx, cx) = r[0].sin_cos();
    let (sy, cy) = r[1].sin_cos();
    let (sz, cz) = r[2].sin_cos();
    let rz = [[cz, sz, 0.], [-sz, cz, 0.], [0., 0., 1.]];
    let ry = [[cy, 0., -sy], [0., 1., 0.], [sy, 0., cy]];
    let rx = [[1., 0., 0.], [0., cx, sx], [0., -sx, cx]];
    let mut zy = [[0f64; 3]; 3];
    let mut p = [[0f64; 3]; 3];
    for i in 0..3 {
        for j in 0..3 {
            zy[i][j] = rz[i][0] * ry[0][j] + rz[i][1] * ry[1][j] + rz[i][2] * ry[2][j];
        }
    }
    for i in 0..3 {
        for j in 0..3 {
            p[i][j] = zy[i][0] * rx[0][j] + zy[i][1] * rx[1][j] + zy[i][2] * rx[2][j];
        }
    }
    let cf = rotation_matrix(&r, true, false);
    let pv = rotation_matrix(&r, true, true);
    for i in 0..3 {
        for j in 0..3 {
            assert!((cf[i][j] - p[i][j]).abs() <= 1e-9);
            assert!((pv[j][i] - p[i][j]).abs() <= 1e-9);
        }
    }
    kani::cover!(true);
}
