// C02 — Helmert: a tuple is transformed independently of its neighbours, of the order and of the
// partition into chunks (mixed epochs!), and an operator is not changed by being applied.
// Relational obligations: batch vs singletons, bit for bit; no oracle, no libm (unrotated).

fn t3() -> [f64; 3] {
    [tiny_f(), tiny_f(), tiny_f()]
}

fn dyn_helmert() -> MOp {
    let mut p = mk_params_s("helmert");
    p.series.insert("T", Vec::from(t3()));
    p.series.insert("DT", Vec::from(t3()));
    p.series.insert("R", Vec::from([0.; 3]));
    p.series.insert("DR", Vec::from([0.; 3]));
    p.series.insert("ROTFLAT", Vec::from([1., 0., 0., 0., 1., 0., 0., 0., 1.]));
    p.real.insert("S", tiny_f());
    p.real.insert("DS", tiny_f());
    p.real.insert("t_epoch", tiny_f());
    set_flag(&mut p, "rotated", false);
    set_flag(&mut p, "dynamic", true);
    set_flag(&mut p, "fixed_time", false);
    set_flag(&mut p, "exact", false);
    set_flag(&mut p, "position_vector", true);
    mk_op(std::mem::ManuallyDrop::into_inner(p), InnerOp(helmert_fwd), InnerOp(helmert_inv))
}

// @harness c02_helmert_batch_vs_single prop=C02 tier=thorough cap=3600 may_timeout=yes stubs="M-BTREE, S-ACC(boolean)" bound="dynamic unrotated Helmert, parameters and 3 tuples (a,b,c) in D-TINY with arbitrary epochs: batch [a,b,c] == singletons, == reversed order, == chunks [a],[b,c], bitwise; counts add; a second application of the same operator to fresh copies gives the same result"
#[kani::proof]
#[kani::stub(ParsedParameters::boolean, acc_boolean)]
#[kani::unwind(18)]
fn c02_helmert_batch_vs_single() {
    let op = dyn_helmert();
    let ctx = NullCtx;
    let (a, b, c) = (tiny_c4(), tiny_c4(), tiny_c4());
    let mut batch = [a, b, c];
    let n = helmert_common(&op, &ctx, &mut batch, Direction::Fwd);
    let (mut sa, mut sb, mut sc) = ([a], [b], [c]);
    let na = helmert_common(&op, &ctx, &mut sa, Direction::Fwd);
    let nb = helmert_common(&op, &ctx, &mut sb, Direction::Fwd);
    let nc = helmert_common(&op, &ctx, &mut sc, Direction::Fwd);
    assert!(n == na + nb + nc);
    assert!(beq4(&batch[0], &sa[0]) && beq4(&batch[1], &sb[0]) && beq4(&batch[2], &sc[0]));
    let mut rev = [c, b, a];
    helmert_common(&op, &ctx, &mut rev, Direction::Fwd);
    assert!(beq4(&rev[0], &sc[0]) && beq4(&rev[1], &sb[0]) && beq4(&rev[2], &sa[0]));
    let mut chunk = [b, c];
    helmert_common(&op, &ctx, &mut chunk, Direction::Fwd);
    assert!(beq4(&chunk[0], &sb[0]) && beq4(&chunk[1], &sc[0]));
    // immutability: the same handle applied again to fresh copies
    let mut again = [a, b, c];
    helmert_common(&op, &ctx, &mut again, Direction::Fwd);
    assert!(beq4(&again[0], &batch[0]) && beq4(&again[1], &batch[1]) && beq4(&again[2], &batch[2]));
    kani::cover!(a.0[3] != b.0[3] && b.0[3] != c.0[3]);
}

// @harness c02_helmert_inv_batch_vs_single prop=C02 tier=thorough cap=3600 may_timeout=yes stubs="M-BTREE, S-ACC(boolean)" bound="dynamic unrotated Helmert, inverse direction, parameters and 2 tuples in D-TINY: batch == singletons bitwise; counts add"
#[kani::proof]
#[kani::stub(ParsedParameters::boolean, acc_boolean)]
#[kani::unwind(18)]
fn c02_helmert_inv_batch_vs_single() {
    let op = dyn_helmert();
    let ctx = NullCtx;
    let (a, b) = (tiny_c4(), tiny_c4());
    let mut batch = [a, b];
    let n = helmert_common(&op, &ctx, &mut batch, Direction::Inv);
    let (mut sa, mut sb) = ([a], [b]);
    let na = helmert_common(&op, &ctx, &mut sa, Direction::Inv);
    let nb = helmert_common(&op, &ctx, &mut sb, Direction::Inv);
    assert!(n == na + nb);
    assert!(beq4(&batch[0], &sa[0]) && beq4(&batch[1], &sb[0]));
    kani::cover!(a.0[3] != b.0[3]);
}

// @harness c02_helmert_fwd_pair prop=C02 tier=quick cap=1200 stubs="M-BTREE, S-ACC(boolean)" bound="dynamic unrotated Helmert, parameters and 2 tuples in D-TINY with arbitrary epochs: batch [a,b] == singletons bitwise; counts add"
#[kani::proof]
#[kani::stub(ParsedParameters::boolean, acc_boolean)]
#[kani::unwind(18)]
fn c02_helmert_fwd_pair() {
    let op = dyn_helmert();
    let ctx = NullCtx;
    let (a, b) = (tiny_c4(), tiny_c4());
    let mut batch = [a, b];
    let n = helmert_common(&op, &ctx, &mut batch, Direction::Fwd);
    let (mut sa, mut sb) = ([a], [b]);
    let na = helmert_common(&op, &ctx, &mut sa, Direction::Fwd);
    let nb = helmert_common(&op, &ctx, &mut sb, Direction::Fwd);
    assert!(n == na + nb);
    assert!(beq4(&batch[0], &sa[0]) && beq4(&batch[1], &sb[0]));
    kani::cover!(a.0[3] != b.0[3]);
}
