// C11 — adapt: descriptors, their combination, and the forward / inverse kernels.
//
// Oracle (module documentation + Rumination 002): a descriptor says, for every position j of
// the EXTERNAL tuple, which internal axis (e,n,u,f = 0..3) it carries, with which sign, and —
// for the two leading positions — in which angular unit:  internal[post[j]] = ext[j]*mult[j].
// `adapt from=F to=T` therefore delivers  out[i] = in[j] * F.mult[j] / T.mult[i]  with j the
// position of F carrying the axis that T wants at position i; the inverse is the exact reverse
// mapping, and `adapt to=X` equals `adapt inv from=X`.

const TORAD: [f64; 3] = [1.0, std::f64::consts::PI / 180., std::f64::consts::PI / 200.];

/// An arbitrary valid descriptor: symbolic permutation, symbolic signs, symbolic unit
/// (what `coordinate_order_descriptor` returns for the 1920 valid spellings)
fn any_descriptor() -> CoordinateOrderDescriptor {
    let post: [usize; 4] = nd();
    kani::assume(post[0] < 4 && post[1] < 4 && post[2] < 4 && post[3] < 4);
    kani::assume(post[0] != post[1] && post[0] != post[2] && post[0] != post[3]);
    kani::assume(post[1] != post[2] && post[1] != post[3] && post[2] != post[3]);
    let neg: [bool; 4] = nd();
    let u: usize = nd();
    kani::assume(u < 3);
    let mut mult = [1.0f64; 4];
    for i in 0..4 {
        let s = if neg[i] { -1.0 } else { 1.0 };
        mult[i] = s * if i > 1 { 1.0 } else { TORAD[u] };
    }
    let noop = false;
    CoordinateOrderDescriptor { post, mult, noop }
}

fn adapt_op(give: &CoordinateOrderDescriptor) -> MOp {
    let mut p = mk_params_s("adapt");
    if give.noop {
        p.boolean.insert("noop");
    }
    let post = [give.post[0] as f64, give.post[1] as f64, give.post[2] as f64, give.post[3] as f64];
    p.series.insert("post", Vec::from(post));
    p.series.insert("mult", Vec::from(give.mult));
    mk_op(std::mem::ManuallyDrop::into_inner(p), InnerOp(fwd), InnerOp(inv))
}

fn close(a: f64, b: f64) -> bool {
    if a.is_nan() || b.is_nan() {
        return a.is_nan() && b.is_nan();
    }
    let d = (a - b).abs();
    d <= 1e-12 * b.abs().max(1e-300) || a == b
}

fn position_of(post: &[usize; 4], axis: usize) -> usize {
    let mut j = 0;
    for k in 0..4 {
        if post[k] == axis {
            j = k;
        }
    }
    j
}

// @harness c11_adapt_fwd_pairs prop=C11 tier=quick cap=900 stubs="M-BTREE" bound="all valid from/to descriptor pairs (permutation, signs, unit in {rad,deg,gon} symbolic), probe tuple elements in D-SMALL; forward kernel; tolerance 1e-12 relative"
#[kani::proof]
#[kani::unwind(34)]
fn c11_adapt_fwd_pairs() {
    let from = any_descriptor();
    let to = any_descriptor();
    let give = combine_descriptors(&from, &to);
    let op = adapt_op(&give);
    let ctx = NullCtx;
    let inp = small_c4();
    let mut data = [inp];
    let n = fwd(&op, &ctx, &mut data);
    assert!(n == 1);
    for i in 0..4 {
        let j = position_of(&from.post, to.post[i]);
        let want = inp.0[j] * (from.mult[j] / to.mult[i]);
        assert!(close(data[0].0[i], want));
    }
    kani::cover!(true);
    std::mem::forget(op);
}

// @harness c11_adapt_from_only prop=C11 tier=quick cap=900 stubs="M-BTREE" bound="adapt from=F (to = enuf): all valid F symbolic, probe in D-SMALL; forward and inverse kernels"
#[kani::proof]
#[kani::unwind(34)]
fn c11_adapt_from_only() {
    let from = any_descriptor();
    let to = CoordinateOrderDescriptor { post: [0, 1, 2, 3], mult: [1.0; 4], noop: true };
    let give = combine_descriptors(&from, &to);
    let op = adapt_op(&give);
    let ctx = NullCtx;
    let inp = small_c4();
    let mut data = [inp];
    assert!(fwd(&op, &ctx, &mut data) == 1);
    // internal[post[j]] = ext[j] * mult[j]
    for j in 0..4 {
        assert!(close(data[0].0[from.post[j]], inp.0[j] * from.mult[j]));
    }
    // inverse: from internal back to the external representation
    let mut back = [inp];
    assert!(inv(&op, &ctx, &mut back) == 1);
    for j in 0..4 {
        assert!(close(back[0].0[j], inp.0[from.post[j]] / from.mult[j]));
    }
    kani::cover!(true);
    std::mem::forget(op);
}

// @harness c11_adapt_inv_reverses prop=C11 tier=quick cap=900 stubs="M-BTREE" bound="all valid from/to pairs symbolic, probe in D-SMALL: inv is the exact reverse mapping of the documented forward mapping"
#[kani::proof]
#[kani::unwind(34)]
fn c11_adapt_inv_reverses() {
    let from = any_descriptor();
    let to = any_descriptor();
    let give = combine_descriptors(&from, &to);
    let op = adapt_op(&give);
    let ctx = NullCtx;
    let out = small_c4();
    let mut data = [out];
    assert!(inv(&op, &ctx, &mut data) == 1);
    // forward: out[i] = in[j] * F.mult[j] / T.mult[i]  =>  in[j] = out[i] * T.mult[i] / F.mult[j]
    for i in 0..4 {
        let j = position_of(&from.post, to.post[i]);
        let want = out.0[i] / (from.mult[j] / to.mult[i]);
        assert!(close(data[0].0[j], want));
    }
    kani::cover!(true);
    std::mem::forget(op);
}

// @harness c11_adapt_to_equals_inv_from prop=C11 tier=quick cap=900 stubs="M-BTREE" bound="all valid X symbolic, probe in D-SMALL: `adapt to=X` forward == `adapt from=X` inverse"
#[kani::proof]
#[kani::unwind(34)]
fn c11_adapt_to_equals_inv_from() {
    let x = any_descriptor();
    let id = CoordinateOrderDescriptor { post: [0, 1, 2, 3], mult: [1.0; 4], noop: true };
    let op_to = adapt_op(&combine_descriptors(&id, &x));
    let op_from = adapt_op(&combine_descriptors(&x, &id));
    let ctx = NullCtx;
    let inp = small_c4();
    let mut a = [inp];
    let mut b = [inp];
    assert!(fwd(&op_to, &ctx, &mut a) == 1);
    assert!(inv(&op_from, &ctx, &mut b) == 1);
    for i in 0..4 {
        assert!(close(a[0].0[i], b[0].0[i]));
    }
    kani::cover!(true);
    std::mem::forget(op_to);
    std::mem::forget(op_from);
}

// @harness c11_adapt_noop_untouched prop=C11 tier=quick stubs="M-BTREE" bound="noop flag set: all f64 tuples returned bit-identical, both directions, count = n"
#[kani::proof]
#[kani::unwind(34)]
fn c11_adapt_noop_untouched() {
    let id = CoordinateOrderDescriptor { post: [0, 1, 2, 3], mult: [1.0; 4], noop: true };
    let give = combine_descriptors(&id, &id);
    assert!(give.noop);
    let op = adapt_op(&give);
    let ctx = NullCtx;
    let a = any_c4();
    let b = any_c4();
    let mut data = [a, b];
    assert!(fwd(&op, &ctx, &mut data) == 2);
    assert!(inv(&op, &ctx, &mut data) == 2);
    assert!(beq4(&data[0], &a) && beq4(&data[1], &b));
    kani::cover!(true);
    std::mem::forget(op);
}

// ---- the descriptor parser on real text: 4 symbolic letters + symbolic suffix
fn letter() -> u8 {
    let k: usize = nd();
    kani::assume(k < 8);
    b"enufwsdp"[k]
}

// @harness c11_descriptor_parse prop=C11 tier=thorough cap=3600 may_timeout=yes btree=no bound="all 4096 words over {e,n,u,f,w,s,d,p} x suffix in {none,_rad,_deg,_gon,_any} (symbolic): accepted iff signed permutation; post/mult as documented"
#[kani::proof]
#[kani::unwind(34)]
fn c11_descriptor_parse() {
    let mut buf = [0u8; 8];
    for i in 0..4 {
        buf[i] = letter();
    }
    let suffix: usize = nd();
    kani::assume(suffix < 5);
    let sfx: [&[u8; 4]; 5] = [b"____", b"_rad", b"_deg", b"_gon", b"_any"];
    for i in 0..4 {
        buf[4 + i] = sfx[suffix][i];
    }
    let len = if suffix == 0 { 4 } else { 8 };
    let text = unsafe { std::str::from_utf8_unchecked(&buf[..len]) };
    let got = coordinate_order_descriptor(text);
    // oracle
    let mut axis = [0usize; 4];
    let mut sign = [1.0f64; 4];
    for i in 0..4 {
        let (a, s) = match buf[i] {
            b'e' => (0, 1.0),
            b'n' => (1, 1.0),
            b'u' => (2, 1.0),
            b'f' => (3, 1.0),
            b'w' => (0, -1.0),
            b's' => (1, -1.0),
            b'd' => (2, -1.0),
            _ => (3, -1.0),
        };
        axis[i] = a;
        sign[i] = s;
    }
    let mut count = [0usize; 4];
    for i in 0..4 {
        count[axis[i]] += 1;
    }
    let valid = count[0] == 1 && count[1] == 1 && count[2] == 1 && count[3] == 1;
    assert!(got.is_some() == valid);
    if let Some(d) = got {
        let torad = match suffix {
            2 => std::f64::consts::PI / 180.,
            3 => std::f64::consts::PI / 200.,
            _ => 1.0,
        };
        for i in 0..4 {
            assert!(d.post[i] == axis[i]);
            let m = sign[i] * if i > 1 { 1.0 } else { torad };
            assert!(d.mult[i] == m);
        }
    }
    kani::cover!(valid);
    kani::cover!(!valid);
}
