// C12 — legacy `push` / `pop` steps (do_the_push / do_the_pop) against the abstract machine:
//   push v_i..: the flagged elements are pushed in the order v_1, v_2, v_3, v_4
//   pop  v_i..: the flagged elements are popped in the order v_4, v_3, v_2, v_1
// so that `push F | pop F` is the identity for every flag subset F; an empty stack at a pop
// yields NaN in the element being popped and a count of 0. Flag subsets are symbolic (all 16),
// stack depth concrete, contents symbolic. Flag sets are M-BTREE sets.

const N: usize = 2;

fn flagset(f: [bool; 4]) -> BTreeSet<&'static str> {
    let mut s = BTreeSet::new();
    if f[0] {
        s.insert("v_1");
    }
    if f[1] {
        s.insert("v_2");
    }
    if f[2] {
        s.insert("v_3");
    }
    if f[3] {
        s.insert("v_4");
    }
    s
}

fn mk_stack<const D: usize>(vals: &[[f64; N]; D]) -> Vec<Vec<f64>> {
    let mut stack: Vec<Vec<f64>> = Vec::with_capacity(D + 4);
    for i in 0..D {
        stack.push(vec![vals[i][0], vals[i][1]]);
    }
    stack
}

fn legacy_push<const D: usize>(f: [bool; 4]) {
    let vals: [[f64; N]; D] = nd();
    let mut stack = mk_stack::<D>(&vals);
    let ops0 = [any_c4(), any_c4()];
    let mut ops = ops0;
    let flags = flagset(f);
    let r = do_the_push(&mut stack, &mut ops, &flags);
    assert!(r == N);
    let mut k = D;
    for j in 0..4 {
        if f[j] {
            assert!(stack.len() > k);
            assert!(stack[k].len() == N && beq(stack[k][0], ops0[0].0[j]) && beq(stack[k][1], ops0[1].0[j]));
            k += 1;
        }
    }
    assert!(stack.len() == k);
    for i in 0..D {
        assert!(beq(stack[i][0], vals[i][0]) && beq(stack[i][1], vals[i][1]));
    }
    for i in 0..N {
        assert!(beq4(&ops[i], &ops0[i]));
    }
    kani::cover!(true);
    std::mem::forget(stack);
    std::mem::forget(flags);
}

fn legacy_pop<const D: usize>(f: [bool; 4]) {
    let vals: [[f64; N]; D] = nd();
    let mut stack = mk_stack::<D>(&vals);
    let ops0 = [any_c4(), any_c4()];
    let mut ops = ops0;
    let flags = flagset(f);
    let r = do_the_pop(&mut stack, &mut ops, &flags);
    // abstract machine
    let mut want = ops0;
    let mut depth = D;
    let mut under = false;
    for jj in 0..4 {
        let j = 3 - jj; // v_4 first
        if !f[j] || under {
            continue;
        }
        if depth == 0 {
            for i in 0..N {
                want[i].0[j] = f64::NAN;
            }
            under = true;
        } else {
            depth -= 1;
            for i in 0..N {
                want[i].0[j] = vals[depth][i];
            }
        }
    }
    if under {
        assert!(r == 0);
    } else {
        assert!(r == N);
        assert!(stack.len() == depth);
    }
    for i in 0..N {
        assert!(beq4(&ops[i], &want[i]));
    }
    kani::cover!(true);
    std::mem::forget(stack);
    std::mem::forget(flags);
}

// push F followed by pop F restores operands and stack
fn legacy_roundtrip(f: [bool; 4]) {
    let vals: [[f64; N]; 1] = nd();
    let mut stack = mk_stack::<1>(&vals);
    let ops0 = [any_c4(), any_c4()];
    let mut ops = ops0;
    let flags = flagset(f);
    let r1 = do_the_push(&mut stack, &mut ops, &flags);
    let r2 = do_the_pop(&mut stack, &mut ops, &flags);
    assert!(r1 == N && r2 == N);
    assert!(stack.len() == 1);
    for i in 0..N {
        assert!(beq4(&ops[i], &ops0[i]));
    }
    kani::cover!(true);
    std::mem::forget(stack);
    std::mem::forget(flags);
}

// @harness c12_legacy_push_f0 prop=C12 tier=thorough stubs="M-BTREE" bound="flags {(none)}, depth 1, 2 operands, contents all f64"
#[kani::proof]
#[kani::unwind(8)]
fn c12_legacy_push_f0() {
    legacy_push::<1>([false, false, false, false]);
}

// @harness c12_legacy_pop_f0 prop=C12 tier=thorough stubs="M-BTREE" bound="flags {(none)}, depth 2 (underflow when more than 2 flags), 2 operands, contents all f64"
#[kani::proof]
#[kani::unwind(8)]
fn c12_legacy_pop_f0() {
    legacy_pop::<2>([false, false, false, false]);
}

// @harness c12_legacy_roundtrip_f0 prop=C12 tier=thorough stubs="M-BTREE" bound="flags {(none)}, push then pop from depth 1, 2 operands, contents all f64"
#[kani::proof]
#[kani::unwind(8)]
fn c12_legacy_roundtrip_f0() {
    legacy_roundtrip([false, false, false, false]);
}

// @harness c12_legacy_push_f1 prop=C12 tier=quick stubs="M-BTREE" bound="flags {v_1}, depth 1, 2 operands, contents all f64"
#[kani::proof]
#[kani::unwind(8)]
fn c12_legacy_push_f1() {
    legacy_push::<1>([true, false, false, false]);
}

// @harness c12_legacy_pop_f1 prop=C12 tier=quick stubs="M-BTREE" bound="flags {v_1}, depth 2 (underflow when more than 2 flags), 2 operands, contents all f64"
#[kani::proof]
#[kani::unwind(8)]
fn c12_legacy_pop_f1() {
    legacy_pop::<2>([true, false, false, false]);
}

// @harness c12_legacy_roundtrip_f1 prop=C12 tier=quick stubs="M-BTREE" bound="flags {v_1}, push then pop from depth 1, 2 operands, contents all f64"
#[kani::proof]
#[kani::unwind(8)]
fn c12_legacy_roundtrip_f1() {
    legacy_roundtrip([true, false, false, false]);
}

// @harness c12_legacy_push_f2 prop=C12 tier=thorough stubs="M-BTREE" bound="flags {v_2}, depth 1, 2 operands, contents all f64"
#[kani::proof]
#[kani::unwind(8)]
fn c12_legacy_push_f2() {
    legacy_push::<1>([false, true, false, false]);
}

// @harness c12_legacy_pop_f2 prop=C12 tier=thorough stubs="M-BTREE" bound="flags {v_2}, depth 2 (underflow when more than 2 flags), 2 operands, contents all f64"
#[kani::proof]
#[kani::unwind(8)]
fn c12_legacy_pop_f2() {
    legacy_pop::<2>([false, true, false, false]);
}

// @harness c12_legacy_roundtrip_f2 prop=C12 tier=thorough stubs="M-BTREE" bound="flags {v_2}, push then pop from depth 1, 2 operands, contents all f64"
#[kani::proof]
#[kani::unwind(8)]
fn c12_legacy_roundtrip_f2() {
    legacy_roundtrip([false, true, false, false]);
}

// @harness c12_legacy_push_f3 prop=C12 tier=thorough stubs="M-BTREE" bound="flags {v_1 v_2}, depth 1, 2 operands, contents all f64"
#[kani::proof]
#[kani::unwind(8)]
fn c12_legacy_push_f3() {
    legacy_push::<1>([true, true, false, false]);
}

// @harness c12_legacy_pop_f3 prop=C12 tier=thorough stubs="M-BTREE" bound="flags {v_1 v_2}, depth 2 (underflow when more than 2 flags), 2 operands, contents all f64"
#[kani::proof]
#[kani::unwind(8)]
fn c12_legacy_pop_f3() {
    legacy_pop::<2>([true, true, false, false]);
}

// @harness c12_legacy_roundtrip_f3 prop=C12 tier=thorough stubs="M-BTREE" bound="flags {v_1 v_2}, push then pop from depth 1, 2 operands, contents all f64"
#[kani::proof]
#[kani::unwind(8)]
fn c12_legacy_roundtrip_f3() {
    legacy_roundtrip([true, true, false, false]);
}

// @harness c12_legacy_push_f4 prop=C12 tier=quick stubs="M-BTREE" bound="flags {v_3}, depth 1, 2 operands, contents all f64"
#[kani::proof]
#[kani::unwind(8)]
fn c12_legacy_push_f4() {
    legacy_push::<1>([false, false, true, false]);
}

// @harness c12_legacy_pop_f4 prop=C12 tier=quick stubs="M-BTREE" bound="flags {v_3}, depth 2 (underflow when more than 2 flags), 2 operands, contents all f64"
#[kani::proof]
#[kani::unwind(8)]
fn c12_legacy_pop_f4() {
    legacy_pop::<2>([false, false, true, false]);
}

// @harness c12_legacy_roundtrip_f4 prop=C12 tier=quick stubs="M-BTREE" bound="flags {v_3}, push then pop from depth 1, 2 operands, contents all f64"
#[kani::proof]
#[kani::unwind(8)]
fn c12_legacy_roundtrip_f4() {
    legacy_roundtrip([false, false, true, false]);
}

// @harness c12_legacy_push_f5 prop=C12 tier=thorough stubs="M-BTREE" bound="flags {v_1 v_3}, depth 1, 2 operands, contents all f64"
#[kani::proof]
#[kani::unwind(8)]
fn c12_legacy_push_f5() {
    legacy_push::<1>([true, false, true, false]);
}

// @harness c12_legacy_pop_f5 prop=C12 tier=thorough stubs="M-BTREE" bound="flags {v_1 v_3}, depth 2 (underflow when more than 2 flags), 2 operands, contents all f64"
#[kani::proof]
#[kani::unwind(8)]
fn c12_legacy_pop_f5() {
    legacy_pop::<2>([true, false, true, false]);
}

// @harness c12_legacy_roundtrip_f5 prop=C12 tier=thorough stubs="M-BTREE" bound="flags {v_1 v_3}, push then pop from depth 1, 2 operands, contents all f64"
#[kani::proof]
#[kani::unwind(8)]
fn c12_legacy_roundtrip_f5() {
    legacy_roundtrip([true, false, true, false]);
}

// @harness c12_legacy_push_f6 prop=C12 tier=thorough stubs="M-BTREE" bound="flags {v_2 v_3}, depth 1, 2 operands, contents all f64"
#[kani::proof]
#[kani::unwind(8)]
fn c12_legacy_push_f6() {
    legacy_push::<1>([false, true, true, false]);
}

// @harness c12_legacy_pop_f6 prop=C12 tier=thorough stubs="M-BTREE" bound="flags {v_2 v_3}, depth 2 (underflow when more than 2 flags), 2 operands, contents all f64"
#[kani::proof]
#[kani::unwind(8)]
fn c12_legacy_pop_f6() {
    legacy_pop::<2>([false, true, true, false]);
}

// @harness c12_legacy_roundtrip_f6 prop=C12 tier=thorough stubs="M-BTREE" bound="flags {v_2 v_3}, push then pop from depth 1, 2 operands, contents all f64"
#[kani::proof]
#[kani::unwind(8)]
fn c12_legacy_roundtrip_f6() {
    legacy_roundtrip([false, true, true, false]);
}

// @harness c12_legacy_push_f7 prop=C12 tier=thorough stubs="M-BTREE" bound="flags {v_1 v_2 v_3}, depth 1, 2 operands, contents all f64"
#[kani::proof]
#[kani::unwind(8)]
fn c12_legacy_push_f7() {
    legacy_push::<1>([true, true, true, false]);
}

// @harness c12_legacy_pop_f7 prop=C12 tier=thorough stubs="M-BTREE" bound="flags {v_1 v_2 v_3}, depth 2 (underflow when more than 2 flags), 2 operands, contents all f64"
#[kani::proof]
#[kani::unwind(8)]
fn c12_legacy_pop_f7() {
    legacy_pop::<2>([true, true, true, false]);
}

// @harness c12_legacy_roundtrip_f7 prop=C12 tier=thorough stubs="M-BTREE" bound="flags {v_1 v_2 v_3}, push then pop from depth 1, 2 operands, contents all f64"
#[kani::proof]
#[kani::unwind(8)]
fn c12_legacy_roundtrip_f7() {
    legacy_roundtrip([true, true, true, false]);
}

// @harness c12_legacy_push_f8 prop=C12 tier=quick stubs="M-BTREE" bound="flags {v_4}, depth 1, 2 operands, contents all f64"
#[kani::proof]
#[kani::unwind(8)]
fn c12_legacy_push_f8() {
    legacy_push::<1>([false, false, false, true]);
}

// @harness c12_legacy_pop_f8 prop=C12 tier=quick stubs="M-BTREE" bound="flags {v_4}, depth 2 (underflow when more than 2 flags), 2 operands, contents all f64"
#[kani::proof]
#[kani::unwind(8)]
fn c12_legacy_pop_f8() {
    legacy_pop::<2>([false, false, false, true]);
}

// @harness c12_legacy_roundtrip_f8 prop=C12 tier=quick stubs="M-BTREE" bound="flags {v_4}, push then pop from depth 1, 2 operands, contents all f64"
#[kani::proof]
#[kani::unwind(8)]
fn c12_legacy_roundtrip_f8() {
    legacy_roundtrip([false, false, false, true]);
}

// @harness c12_legacy_push_f9 prop=C12 tier=thorough stubs="M-BTREE" bound="flags {v_1 v_4}, depth 1, 2 operands, contents all f64"
#[kani::proof]
#[kani::unwind(8)]
fn c12_legacy_push_f9() {
    legacy_push::<1>([true, false, false, true]);
}

// @harness c12_legacy_pop_f9 prop=C12 tier=thorough stubs="M-BTREE" bound="flags {v_1 v_4}, depth 2 (underflow when more than 2 flags), 2 operands, contents all f64"
#[kani::proof]
#[kani::unwind(8)]
fn c12_legacy_pop_f9() {
    legacy_pop::<2>([true, false, false, true]);
}

// @harness c12_legacy_roundtrip_f9 prop=C12 tier=thorough stubs="M-BTREE" bound="flags {v_1 v_4}, push then pop from depth 1, 2 operands, contents all f64"
#[kani::proof]
#[kani::unwind(8)]
fn c12_legacy_roundtrip_f9() {
    legacy_roundtrip([true, false, false, true]);
}

// @harness c12_legacy_push_fA prop=C12 tier=quick stubs="M-BTREE" bound="flags {v_2 v_4}, depth 1, 2 operands, contents all f64"
#[kani::proof]
#[kani::unwind(8)]
fn c12_legacy_push_fA() {
    legacy_push::<1>([false, true, false, true]);
}

// @harness c12_legacy_pop_fA prop=C12 tier=quick stubs="M-BTREE" bound="flags {v_2 v_4}, depth 2 (underflow when more than 2 flags), 2 operands, contents all f64"
#[kani::proof]
#[kani::unwind(8)]
fn c12_legacy_pop_fA() {
    legacy_pop::<2>([false, true, false, true]);
}

// @harness c12_legacy_roundtrip_fA prop=C12 tier=quick stubs="M-BTREE" bound="flags {v_2 v_4}, push then pop from depth 1, 2 operands, contents all f64"
#[kani::proof]
#[kani::unwind(8)]
fn c12_legacy_roundtrip_fA() {
    legacy_roundtrip([false, true, false, true]);
}

// @harness c12_legacy_push_fB prop=C12 tier=thorough stubs="M-BTREE" bound="flags {v_1 v_2 v_4}, depth 1, 2 operands, contents all f64"
#[kani::proof]
#[kani::unwind(8)]
fn c12_legacy_push_fB() {
    legacy_push::<1>([true, true, false, true]);
}

// @harness c12_legacy_pop_fB prop=C12 tier=thorough stubs="M-BTREE" bound="flags {v_1 v_2 v_4}, depth 2 (underflow when more than 2 flags), 2 operands, contents all f64"
#[kani::proof]
#[kani::unwind(8)]
fn c12_legacy_pop_fB() {
    legacy_pop::<2>([true, true, false, true]);
}

// @harness c12_legacy_roundtrip_fB prop=C12 tier=thorough stubs="M-BTREE" bound="flags {v_1 v_2 v_4}, push then pop from depth 1, 2 operands, contents all f64"
#[kani::proof]
#[kani::unwind(8)]
fn c12_legacy_roundtrip_fB() {
    legacy_roundtrip([true, true, false, true]);
}

// @harness c12_legacy_push_fC prop=C12 tier=thorough stubs="M-BTREE" bound="flags {v_3 v_4}, depth 1, 2 operands, contents all f64"
#[kani::proof]
#[kani::unwind(8)]
fn c12_legacy_push_fC() {
    legacy_push::<1>([false, false, true, true]);
}

// @harness c12_legacy_pop_fC prop=C12 tier=thorough stubs="M-BTREE" bound="flags {v_3 v_4}, depth 2 (underflow when more than 2 flags), 2 operands, contents all f64"
#[kani::proof]
#[kani::unwind(8)]
fn c12_legacy_pop_fC() {
    legacy_pop::<2>([false, false, true, true]);
}

// @harness c12_legacy_roundtrip_fC prop=C12 tier=thorough stubs="M-BTREE" bound="flags {v_3 v_4}, push then pop from depth 1, 2 operands, contents all f64"
#[kani::proof]
#[kani::unwind(8)]
fn c12_legacy_roundtrip_fC() {
    legacy_roundtrip([false, false, true, true]);
}

// @harness c12_legacy_push_fD prop=C12 tier=thorough stubs="M-BTREE" bound="flags {v_1 v_3 v_4}, depth 1, 2 operands, contents all f64"
#[kani::proof]
#[kani::unwind(8)]
fn c12_legacy_push_fD() {
    legacy_push::<1>([true, false, true, true]);
}

// @harness c12_legacy_pop_fD prop=C12 tier=thorough stubs="M-BTREE" bound="flags {v_1 v_3 v_4}, depth 2 (underflow when more than 2 flags), 2 operands, contents all f64"
#[kani::proof]
#[kani::unwind(8)]
fn c12_legacy_pop_fD() {
    legacy_pop::<2>([true, false, true, true]);
}

// @harness c12_legacy_roundtrip_fD prop=C12 tier=thorough stubs="M-BTREE" bound="flags {v_1 v_3 v_4}, push then pop from depth 1, 2 operands, contents all f64"
#[kani::proof]
#[kani::unwind(8)]
fn c12_legacy_roundtrip_fD() {
    legacy_roundtrip([true, false, true, true]);
}

// @harness c12_legacy_push_fE prop=C12 tier=thorough stubs="M-BTREE" bound="flags {v_2 v_3 v_4}, depth 1, 2 operands, contents all f64"
#[kani::proof]
#[kani::unwind(8)]
fn c12_legacy_push_fE() {
    legacy_push::<1>([false, true, true, true]);
}

// @harness c12_legacy_pop_fE prop=C12 tier=thorough stubs="M-BTREE" bound="flags {v_2 v_3 v_4}, depth 2 (underflow when more than 2 flags), 2 operands, contents all f64"
#[kani::proof]
#[kani::unwind(8)]
fn c12_legacy_pop_fE() {
    legacy_pop::<2>([false, true, true, true]);
}

// @harness c12_legacy_roundtrip_fE prop=C12 tier=thorough stubs="M-BTREE" bound="flags {v_2 v_3 v_4}, push then pop from depth 1, 2 operands, contents all f64"
#[kani::proof]
#[kani::unwind(8)]
fn c12_legacy_roundtrip_fE() {
    legacy_roundtrip([false, true, true, true]);
}

// @harness c12_legacy_push_fF prop=C12 tier=quick stubs="M-BTREE" bound="flags {v_1 v_2 v_3 v_4}, depth 1, 2 operands, contents all f64"
#[kani::proof]
#[kani::unwind(8)]
fn c12_legacy_push_fF() {
    legacy_push::<1>([true, true, true, true]);
}

// @harness c12_legacy_pop_fF prop=C12 tier=quick stubs="M-BTREE" bound="flags {v_1 v_2 v_3 v_4}, depth 2 (underflow when more than 2 flags), 2 operands, contents all f64"
#[kani::proof]
#[kani::unwind(8)]
fn c12_legacy_pop_fF() {
    legacy_pop::<2>([true, true, true, true]);
}

// @harness c12_legacy_roundtrip_fF prop=C12 tier=quick stubs="M-BTREE" bound="flags {v_1 v_2 v_3 v_4}, push then pop from depth 1, 2 operands, contents all f64"
#[kani::proof]
#[kani::unwind(8)]
fn c12_legacy_roundtrip_fF() {
    legacy_roundtrip([true, true, true, true]);
}
