// C11 — `axisswap::new` rejects duplicate, zero, fractional and out-of-range indices and lists of
// more than four; everything else is accepted. Text front end stubbed (S-PPNEW); the error paths
// format the offending f64, so `<f64 as Display>::fmt` is stubbed too (prints nothing).

static mut A_ORDER: [f64; 5] = [0.; 5];
static mut A_LEN: usize = 0;

fn stub_pp_new(_parameters: &RawParameters, _gamut: &[OpParameter]) -> Result<ParsedParameters, Error> {
    let mut p = mk_params("axisswap");
    unsafe {
        let mut v = Vec::with_capacity(5);
        let mut k = 0;
        while k < A_LEN {
            v.push(A_ORDER[k]);
            k += 1;
        }
        p.series.insert("order", v);
    }
    Ok(p)
}

fn stub_descriptor_new(_definition: &str, fwd: InnerOp, inv: Option<InnerOp>) -> OpDescriptor {
    let invertible = inv.is_some();
    mk_descriptor(fwd, inv.unwrap_or_default(), invertible, false)
}

fn stub_f64_display(_x: &f64, _f: &mut core::fmt::Formatter<'_>) -> core::fmt::Result {
    Ok(())
}

fn mk_raw_real(order: &[f64; 5], len: usize) -> RawParameters {
    let mut s = String::from("axisswap order=");
    for k in 0..len {
        if k > 0 {
            s += ",";
        }
        s += &format!("{}", order[k]);
    }
    RawParameters::new(&s, &BTreeMap::new())
}

fn mk_raw_dummy(_order: &[f64; 5], _len: usize) -> RawParameters {
    RawParameters::default()
}

fn validation_case<const L: usize>() {
    let mut order = [0f64; 5];
    let frac: usize = nd(); // at most one element made fractional
    for k in 0..L {
        let a: i8 = nd();
        kani::assume(a >= -5 && a <= 5);
        order[k] = a as f64 + if frac == k { 0.5 } else { 0. };
    }
    unsafe {
        A_ORDER = order;
        A_LEN = L;
    }
    let raw = std::mem::ManuallyDrop::new(mk_raw_real(&order, L));
    let ctx = NullCtx;
    let r = std::mem::ManuallyDrop::new(new(&raw, &ctx));
    // the documented rule
    let mut valid = L <= 4;
    let mut seen = [false; 6];
    for k in 0..L {
        let o = order[k];
        let integral = o == (o as i64) as f64;
        let a = o.abs() as usize;
        if !integral || a == 0 || a > L {
            valid = false;
        } else {
            if seen[a] {
                valid = false;
            }
            seen[a] = true;
        }
    }
    assert!(r.is_ok() == valid);
    kani::cover!(valid);
    kani::cover!(!valid);
}

// @harness c11_axisswap_new_l1 prop=C11 tier=quick cap=1200 btree_cap=12 nomem=yes ignore=dealloc stubs="M-BTREE(CAP 12), S-PPNEW(ParsedParameters::new), OpDescriptor::new, Uuid::new_v4 = nil, <f64 as Display>::fmt = no output; CBMC memory-safety checks off for this harness (functional assertion only)" bound="order lists of length 1, entries in {-5..5} (+0.5 for at most one): accepted iff every entry is a non-zero integer with |a| <= length and no axis repeats"
#[kani::proof]
#[kani::stub(ParsedParameters::new, stub_pp_new)]
#[kani::stub(OpDescriptor::new, stub_descriptor_new)]
#[kani::stub(uuid::Uuid::new_v4, stub_uuid)]
#[kani::stub(<f64 as core::fmt::Display>::fmt, stub_f64_display)]
#[kani::stub(mk_raw_real, mk_raw_dummy)]
#[kani::unwind(14)]
fn c11_axisswap_new_l1() {
    validation_case::<1>();
}

// @harness c11_axisswap_new_l3 prop=C11 tier=quick cap=1200 btree_cap=12 nomem=yes ignore=dealloc stubs="M-BTREE(CAP 12), S-PPNEW(ParsedParameters::new), OpDescriptor::new, Uuid::new_v4 = nil, <f64 as Display>::fmt = no output; CBMC memory-safety checks off for this harness (functional assertion only)" bound="order lists of length 3, entries in {-5..5} (+0.5 for at most one)"
#[kani::proof]
#[kani::stub(ParsedParameters::new, stub_pp_new)]
#[kani::stub(OpDescriptor::new, stub_descriptor_new)]
#[kani::stub(uuid::Uuid::new_v4, stub_uuid)]
#[kani::stub(<f64 as core::fmt::Display>::fmt, stub_f64_display)]
#[kani::stub(mk_raw_real, mk_raw_dummy)]
#[kani::unwind(14)]
fn c11_axisswap_new_l3() {
    validation_case::<3>();
}

// @harness c11_axisswap_new_l4 prop=C11 tier=quick cap=1200 btree_cap=12 nomem=yes ignore=dealloc stubs="M-BTREE(CAP 12), S-PPNEW(ParsedParameters::new), OpDescriptor::new, Uuid::new_v4 = nil, <f64 as Display>::fmt = no output; CBMC memory-safety checks off for this harness (functional assertion only)" bound="order lists of length 4, entries in {-5..5} (+0.5 for at most one)"
#[kani::proof]
#[kani::stub(ParsedParameters::new, stub_pp_new)]
#[kani::stub(OpDescriptor::new, stub_descriptor_new)]
#[kani::stub(uuid::Uuid::new_v4, stub_uuid)]
#[kani::stub(<f64 as core::fmt::Display>::fmt, stub_f64_display)]
#[kani::stub(mk_raw_real, mk_raw_dummy)]
#[kani::unwind(14)]
fn c11_axisswap_new_l4() {
    validation_case::<4>();
}

// @harness c11_axisswap_new_l5 prop=C11 tier=quick cap=1200 btree_cap=12 nomem=yes ignore=dealloc stubs="M-BTREE(CAP 12), S-PPNEW(ParsedParameters::new), OpDescriptor::new, Uuid::new_v4 = nil, <f64 as Display>::fmt = no output; CBMC memory-safety checks off for this harness (functional assertion only)" bound="order lists of length 5: always refused"
#[kani::proof]
#[kani::stub(ParsedParameters::new, stub_pp_new)]
#[kani::stub(OpDescriptor::new, stub_descriptor_new)]
#[kani::stub(uuid::Uuid::new_v4, stub_uuid)]
#[kani::stub(<f64 as core::fmt::Display>::fmt, stub_f64_display)]
#[kani::stub(mk_raw_real, mk_raw_dummy)]
#[kani::unwind(14)]
fn c11_axisswap_new_l5() {
    validation_case::<5>();
}
