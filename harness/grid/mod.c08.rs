// C08 / C15 — BaseGrid: containment, indexing, bilinear interpolation, first-hit selection.
//
// (1) representation invariant INV, inductive: from ANY BaseGrid state satisfying INV, `at`
//     performs no out-of-bounds access, no clamp panic, and answers Some <=> contains.
//     A twin shows that `BaseGrid::plain` either errs or establishes INV (C15: a malformed
//     header yields an error or a grid that can be queried safely).
// (2) node reproduction and bilinear weights on an exactly representable geometry.
// (3) `contains`: borders + margin * cell size per axis.
// (4) `grids_at`: first hit at margin 0, else first hit at margin 0.5, else null grid / None.

const CAPG: usize = 27;

/// INV: what `plain` guarantees about the states it returns (offset = 0 case)
fn inv_holds(g: &BaseGrid) -> bool {
    let finite = g.lat_n.is_finite()
        && g.lat_s.is_finite()
        && g.lon_w.is_finite()
        && g.lon_e.is_finite()
        && g.dlat.is_finite()
        && g.dlon.is_finite();
    let signs = (g.dlat > 0.) == (g.lat_s > g.lat_n || (g.lat_s == g.lat_n && g.dlat > 0.))
        && (g.dlon < 0.) == (g.lon_e < g.lon_w || (g.lon_e == g.lon_w && g.dlon < 0.));
    let dims = g.rows >= 2 && g.cols >= 2 && g.bands >= 1 && g.rows <= CAPG && g.cols <= CAPG && g.bands <= CAPG;
    finite && signs && dims && g.offset == 0 && g.rows * g.cols * g.bands <= g.grid.len()
}

fn any_grid_state() -> BaseGrid {
    let vals: [f32; CAPG] = nd();
    BaseGrid {
        lat_n: nd(), lat_s: nd(), lon_w: nd(), lon_e: nd(), dlat: nd(), dlon: nd(),
        rows: nd(), cols: nd(), bands: nd(), offset: 0,
        grid: Vec::from(vals),
    }
}

/// S-ANY: `ceil`/`floor` return an arbitrary double. Over-approximation: the cell index is
/// clamped after the cast, so memory safety must hold whatever the rounding delivers; it also
/// takes the two symbolic divisions out of the cone of influence of the bounds checks.
fn any_round(_x: f64) -> f64 {
    kani::any()
}

fn at_safe_case(rows: usize, cols: usize, bands: usize) {
    let mut g = std::mem::ManuallyDrop::new(any_grid_state());
    g.rows = rows;
    g.cols = cols;
    g.bands = bands;
    kani::assume(inv_holds(&g));
    let at = any_c4();
    let margin: f64 = nd();
    kani::assume(margin >= 0. && margin <= 1.);
    // the obligation is panic-freedom and memory safety of the lookup (Kani's own checks);
    // "Some <=> contains" is decided on concrete geometries (c08_contains_margin):
    // asserting it here would make the solver prove two copies of margin*|dlat| equal
    let r = g.at(&at, margin);
    kani::cover!(r.is_some());
    kani::cover!(r.is_none());
}

// @harness c08_at_safe_2x2x1 prop=C08 tier=quick btree=no cap=900 stubs="S-ANY(f64::ceil, f64::floor: arbitrary result, over-approximation)" bound="any BaseGrid state satisfying INV with rows=2, cols=2, bands=1 (27 node values, all f32), all f64 geometry, any query tuple, margin in [0,1]: no panic, no out-of-bounds access"
#[kani::proof]
#[kani::stub(f64::ceil, any_round)]
#[kani::stub(f64::floor, any_round)]
#[kani::unwind(30)]
fn c08_at_safe_2x2x1() {
    at_safe_case(2, 2, 1);
}

// @harness c08_at_safe_2x3x2 prop=C08 tier=quick btree=no cap=900 stubs="S-ANY(f64::ceil, f64::floor)" bound="as c08_at_safe_2x2x1 with rows=2, cols=3, bands=2"
#[kani::proof]
#[kani::stub(f64::ceil, any_round)]
#[kani::stub(f64::floor, any_round)]
#[kani::unwind(30)]
fn c08_at_safe_2x3x2() {
    at_safe_case(2, 3, 2);
}

// @harness c08_at_safe_3x3x3 prop=C08 tier=quick btree=no cap=900 stubs="S-ANY(f64::ceil, f64::floor)" bound="as c08_at_safe_2x2x1 with rows=3, cols=3, bands=3"
#[kani::proof]
#[kani::stub(f64::ceil, any_round)]
#[kani::stub(f64::floor, any_round)]
#[kani::unwind(30)]
fn c08_at_safe_3x3x3() {
    at_safe_case(3, 3, 3);
}

// @harness c08_at_safe_3x2x5 prop=C08 tier=thorough btree=no cap=1800 bound="rows=3, cols=2, bands=4 (4 bands: all returned)"
#[kani::proof]
#[kani::stub(f64::ceil, any_round)]
#[kani::stub(f64::floor, any_round)]
#[kani::unwind(30)]
fn c08_at_safe_3x2x5() {
    at_safe_case(3, 2, 4);
}

// @harness c08_plain_establishes_inv prop=C08 tier=quick btree=no cap=900 bound="BaseGrid::plain on every 7-element f64 header with a grid of 12 f32 values: Err, or a state satisfying INV; never a panic (dev profile: integer overflow counts)"
#[kani::proof]
#[kani::unwind(16)]
fn c08_plain_establishes_inv() {
    let header: [f64; 7] = nd();
    let vals: [f32; 12] = nd();
    let r = BaseGrid::plain(&header, Some(&vals), None);
    if let Ok(g) = r {
        let g = std::mem::ManuallyDrop::new(g);
        assert!(inv_holds(&g));
        kani::cover!(true);
    }
}

/// 3x3 nodes, unit spacing, north-west corner (lon 0, lat 2); `bands` interleaved values
fn unit_grid(vals: [f32; CAPG], bands: usize) -> std::mem::ManuallyDrop<BaseGrid> {
    std::mem::ManuallyDrop::new(BaseGrid {
        lat_n: 2., lat_s: 0., lon_w: 0., lon_e: 2., dlat: -1., dlon: 1.,
        rows: 3, cols: 3, bands, offset: 0,
        grid: Vec::from(vals),
    })
}

fn small_vals() -> [f32; CAPG] {
    let mut v = [0f32; CAPG];
    for k in 0..CAPG {
        v[k] = small_f() as f32;
    }
    v
}

fn node_case(bands: usize) {
    let vals: [f32; CAPG] = nd();
    for k in 0..CAPG {
        kani::assume(vals[k].is_finite());
    }
    let g = unit_grid(vals, bands);
    let r: u8 = nd();
    let c: u8 = nd();
    kani::assume(r < 3 && c < 3);
    let at = Coor4D([c as f64, 2. - r as f64, nd(), nd()]);
    let got = g.at(&at, 0.0);
    assert!(got.is_some());
    let got = got.unwrap();
    for b in 0..4 {
        if b < bands {
            let node = vals[bands * (3 * r as usize + c as usize) + b] as f64;
            assert!(feq(got.0[b], node));
        } else {
            assert!(got.0[b] == 0.);
        }
    }
    kani::cover!(true);
}

// @harness c08_node_reproduction_b1 prop=C08 tier=quick btree=no cap=900 bound="3x3 unit grid, 1 band, all finite f32 node values, query = node (row,col) symbolic: result == node value; unused bands 0"
#[kani::proof]
#[kani::unwind(30)]
fn c08_node_reproduction_b1() {
    node_case(1);
}

// @harness c08_node_reproduction_b2 prop=C08 tier=quick btree=no cap=900 bound="as b1 with 2 interleaved bands"
#[kani::proof]
#[kani::unwind(30)]
fn c08_node_reproduction_b2() {
    node_case(2);
}

// @harness c08_node_reproduction_b3 prop=C08 tier=quick btree=no cap=900 bound="as b1 with 3 interleaved bands"
#[kani::proof]
#[kani::unwind(30)]
fn c08_node_reproduction_b3() {
    node_case(3);
}

// @harness c08_bilinear_weights prop=C08 tier=quick btree=no cap=900 bound="3x3 unit grid, 2 bands, node values in D-SMALL, query at quarter-cell offsets (symbolic cell and offsets in {0,.25,.5,.75}) incl. the half-cell margin: result == bilinear formula of the 4 surrounding nodes (exact in this domain), within [min,max] of the corners inside the grid"
#[kani::proof]
#[kani::unwind(30)]
fn c08_bilinear_weights() {
    let vals = small_vals();
    let g = unit_grid(vals, 2);
    // query position in quarter cells: -2..=10 covers the half-cell margin on both sides
    let qx: i8 = nd();
    let qy: i8 = nd();
    kani::assume(qx >= -2 && qx <= 10 && qy >= -2 && qy <= 10);
    let lon = qx as f64 * 0.25;
    let lat = qy as f64 * 0.25;
    let at = Coor4D([lon, lat, 0., 0.]);
    let got = g.at(&at, 0.5);
    assert!(got.is_some());
    let got = got.unwrap();
    // cell: column c in 0..=1, row index of the upper node row in 0..=1 (clamped at the border)
    let c = if qx < 4 { 0 } else { 1 };
    let ru = if qy > 4 { 0 } else { 1 }; // upper row of the cell (row 0 is lat 2)
    let fx = lon - c as f64; // fraction along longitude, from the left node
    let fy = lat - (2. - (ru + 1) as f64); // fraction along latitude, from the lower node
    for b in 0..2 {
        let node = |row: usize, col: usize| vals[2 * (3 * row + col) + b] as f64;
        let (ul, ur, ll, lr) = (node(ru, c), node(ru, c + 1), node(ru + 1, c), node(ru + 1, c + 1));
        let want = (1. - fx) * ((1. - fy) * ll + fy * ul) + fx * ((1. - fy) * lr + fy * ur);
        assert!(feq(got.0[b], want));
        if qx >= 0 && qx <= 8 && qy >= 0 && qy <= 8 {
            let lo = ul.min(ur).min(ll).min(lr);
            let hi = ul.max(ur).max(ll).max(lr);
            assert!(got.0[b] >= lo && got.0[b] <= hi);
        }
    }
    kani::cover!(qx < 0);
    kani::cover!(qx > 8 && qy > 8);
}

// @harness c08_contains_margin prop=C08 tier=quick btree=no bound="grid lat 0..2 (dlat 1), lon 0..6 (dlon 3, so dlat != dlon), both scan directions symbolic, margin in {0,0.5,1}, query: all f64: contains <=> within borders + margin*cell per axis; at(..).is_some() <=> contains"
#[kani::proof]
#[kani::unwind(30)]
fn c08_contains_margin() {
    let flip_lat: bool = nd();
    let flip_lon: bool = nd();
    let (lat_n, lat_s, dlat) = if flip_lat { (0., 2., 1.) } else { (2., 0., -1.) };
    let (lon_w, lon_e, dlon) = if flip_lon { (6., 0., -3.) } else { (0., 6., 3.) };
    let g = std::mem::ManuallyDrop::new(BaseGrid {
        lat_n, lat_s, lon_w, lon_e, dlat, dlon, rows: 3, cols: 3, bands: 1, offset: 0,
        grid: Vec::from([0f32; 9]),
    });
    let m: u8 = nd();
    kani::assume(m <= 2);
    let margin = m as f64 * 0.5;
    let at = any_c4();
    let got = g.contains(&at, margin);
    let want = at.0[1] >= 0. - margin * 1. && at.0[1] <= 2. + margin * 1.
        && at.0[0] >= 0. - margin * 3. && at.0[0] <= 6. + margin * 3.;
    assert!(got == want);
    // and the lookup answers Some exactly when the point is contained
    assert!(g.at(&at, margin).is_some() == want);
    kani::cover!(got);
    kani::cover!(!got);
}

// ---- S-GRID: a grid whose answers are arbitrary (environment of grids_at and the operators)
#[derive(Debug)]
struct AnyGrid {
    hit0: bool,     // contains at margin 0
    hit_half: bool, // contains at margin 0.5
    value: Coor4D,
}
impl Grid for AnyGrid {
    fn bands(&self) -> usize {
        2
    }
    fn contains(&self, _coord: &Coor4D, margin: f64) -> bool {
        if margin == 0.0 {
            self.hit0
        } else {
            self.hit_half
        }
    }
    fn at(&self, coord: &Coor4D, margin: f64) -> Option<Coor4D> {
        if self.contains(coord, margin) {
            Some(self.value)
        } else {
            None
        }
    }
}

fn any_anygrid() -> AnyGrid {
    let hit0: bool = nd();
    let hit_half: bool = nd();
    // a grid containing a point contains it for every larger margin
    kani::assume(!hit0 || hit_half);
    AnyGrid { hit0, hit_half, value: any_c4() }
}

// @harness c08_grids_at_first_hit prop=C08 tier=quick btree=no cap=900 bound="3 grids with arbitrary containment answers (monotone in the margin) and arbitrary values, null-grid flag symbolic: first grid containing the point, else first within the half-cell margin, else origin (null grid) or None"
#[kani::proof]
#[kani::unwind(30)]
fn c08_grids_at_first_hit() {
    let g0 = any_anygrid();
    let g1 = any_anygrid();
    let g2 = any_anygrid();
    let hits0 = [g0.hit0, g1.hit0, g2.hit0];
    let hits1 = [g0.hit_half, g1.hit_half, g2.hit_half];
    let vals = [g0.value, g1.value, g2.value];
    let a0: std::sync::Arc<dyn Grid> = std::sync::Arc::new(g0);
    let a1: std::sync::Arc<dyn Grid> = std::sync::Arc::new(g1);
    let a2: std::sync::Arc<dyn Grid> = std::sync::Arc::new(g2);
    let grids = std::mem::ManuallyDrop::new([a0, a1, a2]);
    let null: bool = nd();
    let at = any_c4();
    let got = grids_at(&grids[..], &at, null);
    let mut want: Option<Coor4D> = None;
    for k in 0..3 {
        if want.is_none() && hits0[k] {
            want = Some(vals[k]);
        }
    }
    for k in 0..3 {
        if want.is_none() && hits1[k] {
            want = Some(vals[k]);
        }
    }
    if want.is_none() && null {
        want = Some(Coor4D::origin());
    }
    assert!(got.is_some() == want.is_some());
    if let (Some(a), Some(b)) = (got, want) {
        assert!(beq4(&a, &b));
    }
    kani::cover!(got.is_none());
    kani::cover!(got.is_some());
}
