// C15 — NTv2 decoding of untrusted bytes: `Ntv2Grid::new(buf)` on buffers of concrete length
// with ARBITRARY content never panics and never reads out of bounds (every truncation and every
// corruption of a file of that length is one of the contents); a grid that decodes can be
// queried safely. Maps are M-BTREE.

fn new_on_arbitrary<const L: usize>() {
    // one array-typed nondeterministic value (no element loop, so a small unwind bound suffices;
    // the price: Kani's playback does not list array values, a counterexample of these
    // harnesses is reported as undecided unless it reproduces with zeroed bytes)
    let buf: [u8; L] = kani::any();
    let r = Ntv2Grid::new(&buf);
    if let Ok(g) = r {
        let g = std::mem::ManuallyDrop::new(g);
        // any query on a grid that decoded is safe
        let at = any_c4();
        let _ = g.at(&at, 0.5);
    }
    kani::cover!(true);
}

// @harness c15_ntv2_new_len0 prop=C15 tier=quick cap=900 stubs="M-BTREE, M-UTF8(core::str::from_utf8: ASCII valid, other input rejected)" bound="buffer of 0 bytes"
#[kani::proof]
#[kani::stub(core::str::from_utf8, stub_from_utf8)]
#[kani::unwind(12)]
fn c15_ntv2_new_len0() {
    new_on_arbitrary::<0>();
}

// @harness c15_ntv2_new_len8 prop=C15 tier=quick cap=900 stubs="M-BTREE, M-UTF8(core::str::from_utf8: ASCII valid, other input rejected)" bound="every buffer of 8 bytes"
#[kani::proof]
#[kani::stub(core::str::from_utf8, stub_from_utf8)]
#[kani::unwind(12)]
fn c15_ntv2_new_len8() {
    new_on_arbitrary::<8>();
}

// @harness c15_ntv2_new_len11 prop=C15 tier=quick cap=900 stubs="M-BTREE, M-UTF8(core::str::from_utf8: ASCII valid, other input rejected)" bound="every buffer of 11 bytes"
#[kani::proof]
#[kani::stub(core::str::from_utf8, stub_from_utf8)]
#[kani::unwind(12)]
fn c15_ntv2_new_len11() {
    new_on_arbitrary::<11>();
}

// @harness c15_ntv2_new_len62 prop=C15 tier=quick cap=900 stubs="M-BTREE, M-UTF8(core::str::from_utf8: ASCII valid, other input rejected)" bound="every buffer of 62 bytes"
#[kani::proof]
#[kani::stub(core::str::from_utf8, stub_from_utf8)]
#[kani::unwind(12)]
fn c15_ntv2_new_len62() {
    new_on_arbitrary::<62>();
}

// @harness c15_ntv2_new_len175 prop=C15 tier=quick cap=900 stubs="M-BTREE, M-UTF8(core::str::from_utf8: ASCII valid, other input rejected)" bound="every buffer of 175 bytes (one short of the overview header)"
#[kani::proof]
#[kani::stub(core::str::from_utf8, stub_from_utf8)]
#[kani::unwind(12)]
fn c15_ntv2_new_len175() {
    new_on_arbitrary::<175>();
}

// @harness c15_ntv2_new_len176 prop=C15 tier=thorough cap=3600 may_timeout=yes stubs="M-BTREE, M-UTF8(core::str::from_utf8: ASCII valid, other input rejected)" bound="every buffer of 176 bytes (overview header only, arbitrary content incl. NUM_FILE = 0 and > 0), followed by a query"
#[kani::proof]
#[kani::stub(core::str::from_utf8, stub_from_utf8)]
#[kani::unwind(12)]
fn c15_ntv2_new_len176() {
    new_on_arbitrary::<176>();
}

/// A well-formed little-endian overview header announcing `nfile` sub grids
fn overview(buf: &mut [u8], nfile: u32) {
    let put = |buf: &mut [u8], at: usize, s: &[u8]| {
        for (k, b) in s.iter().enumerate() {
            buf[at + k] = *b;
        }
    };
    put(buf, 0, b"NUM_OREC");
    put(buf, 8, &11u32.to_le_bytes());
    put(buf, 16, b"NUM_SREC");
    put(buf, 24, &11u32.to_le_bytes());
    put(buf, 32, b"NUM_FILE");
    put(buf, 40, &nfile.to_le_bytes());
    put(buf, 48, b"GS_TYPE ");
    put(buf, 56, b"SECONDS ");
}

fn new_with_valid_overview<const L: usize>(nfile: u32) {
    // everything after the overview header is arbitrary
    let mut buf: [u8; L] = kani::any();
    overview(&mut buf, nfile);
    let r = Ntv2Grid::new(&buf);
    if let Ok(g) = r {
        let g = std::mem::ManuallyDrop::new(g);
        let at = any_c4();
        let _ = g.at(&at, 0.5);
    }
    kani::cover!(true);
}

// @harness c15_ntv2_subheader_arbitrary prop=C15 tier=thorough cap=3600 may_timeout=yes stubs="M-BTREE, M-UTF8(core::str::from_utf8: ASCII valid, other input rejected)" bound="valid overview header (NUM_FILE=1) + 176 arbitrary sub grid header bytes, no node records (352 bytes): no panic, no out-of-bounds read; query safe if it decodes"
#[kani::proof]
#[kani::stub(core::str::from_utf8, stub_from_utf8)]
#[kani::unwind(12)]
fn c15_ntv2_subheader_arbitrary() {
    new_with_valid_overview::<352>(1);
}

// @harness c15_ntv2_truncated_subheader prop=C15 tier=thorough cap=3600 may_timeout=yes stubs="M-BTREE, M-UTF8(core::str::from_utf8: ASCII valid, other input rejected)" bound="valid overview header announcing 1 sub grid, file cut inside the sub grid header (300 bytes, tail arbitrary)"
#[kani::proof]
#[kani::stub(core::str::from_utf8, stub_from_utf8)]
#[kani::unwind(12)]
fn c15_ntv2_truncated_subheader() {
    new_with_valid_overview::<300>(1);
}

// @harness c15_ntv2_no_subgrids prop=C15 tier=thorough cap=3600 may_timeout=yes stubs="M-BTREE, M-UTF8(core::str::from_utf8: ASCII valid, other input rejected)" bound="valid overview header announcing 0 sub grids: decodes; every query is answered None without panic"
#[kani::proof]
#[kani::stub(core::str::from_utf8, stub_from_utf8)]
#[kani::unwind(12)]
fn c15_ntv2_no_subgrids() {
    let mut buf = [0u8; 176];
    overview(&mut buf, 0);
    let g = Ntv2Grid::new(&buf);
    assert!(g.is_ok());
    let g = std::mem::ManuallyDrop::new(g.unwrap());
    let at = any_c4();
    assert!(g.at(&at, 0.5).is_none());
    assert!(!g.contains(&at, 0.5));
    kani::cover!(true);
}


// The overview header alone, concrete and well formed, zero sub grids: decoding succeeds (the
// query side of an empty grid is exercised in the thorough tier, see DESIGN.md section 4/C15 for
// why anything that reads the heap copy of the buffer twice is expensive for CBMC).
// @harness c15_ntv2_header_only_decodes prop=C15 tier=quick cap=900 stubs="M-BTREE, M-UTF8(core::str::from_utf8: ASCII valid, other input rejected)" bound="176-byte well-formed little-endian overview header, NUM_FILE = 0: Ok"
#[kani::proof]
#[kani::stub(core::str::from_utf8, stub_from_utf8)]
#[kani::unwind(12)]
fn c15_ntv2_header_only_decodes() {
    let mut buf = [0u8; 176];
    overview(&mut buf, 0);
    let g = std::mem::ManuallyDrop::new(Ntv2Grid::new(&buf));
    assert!(g.is_ok());
    kani::cover!(true);
}
