// C15 — NTv2 node section: `parse_subgrid_grid` on a buffer of concrete length with arbitrary
// content, for EVERY claimed node count and every start offset: an error value or exactly
// 2*num_nodes values; never a read past the end of the buffer (Kani's bounds checks).

fn node_section_case<const L: usize>(arbitrary_content: bool) {
    // array-typed nondeterminism keeps the unwind bound small but cannot be replayed by Kani's
    // playback; the zero-content twin is replayable (the bounds question does not depend on
    // the byte values)
    let buf: [u8; L] = if arbitrary_content { kani::any() } else { [0u8; L] };
    let parser = std::mem::ManuallyDrop::new(NTv2Parser::new(buf[..].into()));
    let grid_start: usize = nd();
    let num_nodes: usize = nd();
    // what `ntv2_subgrid` can pass: the start lies inside the buffer (the header was read from
    // there), the node count is a u32 taken from the header
    kani::assume(grid_start <= L && num_nodes <= u32::MAX as usize);
    let r = std::mem::ManuallyDrop::new(parse_subgrid_grid(&parser, grid_start, num_nodes));
    if let Ok(ref g) = *r {
        assert!(g.len() == 2 * num_nodes);
        assert!(grid_start + num_nodes * NODE_SIZE <= L);
    }
    kani::cover!(r.is_ok() && num_nodes == 2);
    kani::cover!(r.is_err());
}

// @harness c15_ntv2_node_section_48 prop=C15 tier=quick cap=1200 btree=no bound="buffer of 48 arbitrary bytes (up to 3 node records), every start offset <= 48, every node count <= u32::MAX: Err or exactly 2*n values, no out-of-bounds read"
#[kani::proof]
#[kani::unwind(8)]
fn c15_ntv2_node_section_48() {
    node_section_case::<48>(true);
}

// @harness c15_ntv2_node_section_40 prop=C15 tier=quick cap=1200 btree=no bound="buffer of 40 arbitrary bytes (a file cut inside the third node record)"
#[kani::proof]
#[kani::unwind(8)]
fn c15_ntv2_node_section_40() {
    node_section_case::<40>(true);
}

// @harness c15_ntv2_node_section_48_zero prop=C15 tier=quick cap=1200 btree=no bound="as c15_ntv2_node_section_48 with all-zero content (replayable twin: only start offset and node count are nondeterministic)"
#[kani::proof]
#[kani::unwind(8)]
fn c15_ntv2_node_section_48_zero() {
    node_section_case::<48>(false);
}

// The sub grid header reader on 176 arbitrary bytes (either byte order, decided by the parser
// from byte 8): no panic (the float-to-integer casts saturate, the node-count product is
// checked), an error value or a header whose node count equals rows x columns.
// @harness c15_ntv2_subgrid_header_arbitrary prop=C15 tier=quick cap=1500 btree=no stubs="M-UTF8(core::str::from_utf8: ASCII valid, other input rejected)" bound="every 176-byte sub grid header (arbitrary content, both byte orders): SubGridHeader::new returns without panic"
#[kani::proof]
#[kani::stub(core::str::from_utf8, stub_from_utf8)]
#[kani::unwind(20)]
fn c15_ntv2_subgrid_header_arbitrary() {
    let buf: [u8; 176] = kani::any();
    let parser = std::mem::ManuallyDrop::new(NTv2Parser::new(buf[..].into()));
    let r = std::mem::ManuallyDrop::new(SubGridHeader::new(&parser, 0));
    kani::cover!(r.is_ok());
    kani::cover!(r.is_err());
}
