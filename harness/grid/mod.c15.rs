// C15 — Gravsoft post-parse pipeline: `normalize_gravsoft_grid_values` applies the documented
// unit and order conventions (header degrees -> radians unless a border exceeds 720; 2 bands:
// arcsec -> radians and (lat,lon) -> (lon,lat); 3 bands: mm/yr -> m/yr and (n,e,u) -> (e,n,u);
// 1 band: values untouched), and `BaseGrid::plain` turns every header into an error or a grid
// satisfying the representation invariant (harness c08_plain_establishes_inv, shared with C08).

fn hdr(bands: f64) -> [f64; 7] {
    // 2 rows x 2 columns: lat 1..0 (dlat 1), lon 0..1 (dlon 1), degrees
    [1., 0., 0., 1., 1., 1., bands]
}

// @harness c15_gravsoft_normalize_2band prop=C15 tier=quick btree=no cap=900 bound="2x2 grid, 2 bands, node values in D-SMALL: arcsec -> rad (f32 arithmetic as coded) and latitude/longitude swapped per node; header converted to radians"
#[kani::proof]
#[kani::unwind(12)]
fn c15_gravsoft_normalize_2band() {
    let mut header = hdr(2.);
    let mut grid = [0f32; 8];
    for k in 0..8 {
        grid[k] = small_f() as f32;
    }
    let orig = grid;
    normalize_gravsoft_grid_values(&mut header, &mut grid);
    for node in 0..4 {
        let lat = (orig[2 * node] / 3600.0).to_radians();
        let lon = (orig[2 * node + 1] / 3600.0).to_radians();
        assert!(beq32(grid[2 * node], lon));
        assert!(beq32(grid[2 * node + 1], lat));
    }
    for k in 0..6 {
        assert!(header[k] == hdr(2.)[k].to_radians());
    }
    assert!(header[6] == 2.);
    kani::cover!(true);
}

// @harness c15_gravsoft_normalize_3band prop=C15 tier=quick btree=no cap=900 bound="2x2 grid, 3 bands, node values in D-SMALL: mm/yr -> m/yr and (n,e,u) -> (e,n,u) per node"
#[kani::proof]
#[kani::unwind(14)]
fn c15_gravsoft_normalize_3band() {
    let mut header = hdr(3.);
    let mut grid = [0f32; 12];
    for k in 0..12 {
        grid[k] = small_f() as f32;
    }
    let orig = grid;
    normalize_gravsoft_grid_values(&mut header, &mut grid);
    for node in 0..4 {
        assert!(beq32(grid[3 * node], orig[3 * node + 1] / 1000.0));
        assert!(beq32(grid[3 * node + 1], orig[3 * node] / 1000.0));
        assert!(beq32(grid[3 * node + 2], orig[3 * node + 2] / 1000.0));
    }
    kani::cover!(true);
}

// @harness c15_gravsoft_normalize_1band_and_projected prop=C15 tier=quick btree=no cap=900 bound="1 band: all f32 node values untouched, header to radians; a border beyond 720: header and values untouched"
#[kani::proof]
#[kani::unwind(12)]
fn c15_gravsoft_normalize_1band_and_projected() {
    let mut header = hdr(1.);
    let mut grid: [f32; 4] = nd();
    let orig = grid;
    normalize_gravsoft_grid_values(&mut header, &mut grid);
    for k in 0..4 {
        assert!(beq32(grid[k], orig[k]));
    }
    assert!(header[0] == 1f64.to_radians());
    // projected coordinates: nothing is converted
    let mut header = [6100000., 6000000., 500000., 600000., 100000., 100000., 2.];
    let h0 = header;
    let mut grid: [f32; 8] = nd();
    let orig = grid;
    normalize_gravsoft_grid_values(&mut header, &mut grid);
    for k in 0..8 {
        assert!(beq32(grid[k], orig[k]));
    }
    for k in 0..7 {
        assert!(header[k] == h0[k]);
    }
    kani::cover!(true);
}
