// C01 — direction / inversion dispatch of `Op::apply` and `Op::handle_inversion`.
// Marker kernels that are exact mutual inverses on bit patterns; all flag / direction
// combinations symbolic.

static mut CALLS_F: usize = 0;
static mut CALLS_I: usize = 0;

fn mark_f(_op: &Op, _ctx: &dyn Context, operands: &mut dyn CoordinateSet) -> usize {
    unsafe { CALLS_F += 1 };
    for i in 0..operands.len() {
        let mut c = operands.get_coord(i);
        c[0] = f64::from_bits(c[0].to_bits().rotate_left(7) ^ 0x5555_AAAA_1234_5678);
        operands.set_coord(i, &c);
    }
    operands.len()
}

fn mark_i(_op: &Op, _ctx: &dyn Context, operands: &mut dyn CoordinateSet) -> usize {
    unsafe { CALLS_I += 1 };
    for i in 0..operands.len() {
        let mut c = operands.get_coord(i);
        c[0] = f64::from_bits((c[0].to_bits() ^ 0x5555_AAAA_1234_5678).rotate_right(7));
        operands.set_coord(i, &c);
    }
    operands.len()
}

fn marker(invertible: bool, inverted: bool) -> Op {
    Op {
        descriptor: mk_descriptor(InnerOp(mark_f), InnerOp(mark_i), invertible, inverted),
        // real heap strings: handle_inversion drops the operator on its error path
        params: mk_params("mark"),
        steps: Vec::new(),
        id: nil_handle(),
    }
}

// @harness c01_apply_dispatch prop=C01 tier=quick cap=900 stubs="M-BTREE" bound="inverted flag and first direction symbolic, 2 tuples all f64: apply(D) then apply(opposite of D) calls each kernel exactly once and restores every bit; an inverted op behaves as the plain op with directions exchanged"
#[kani::proof]
#[kani::unwind(6)]
fn c01_apply_dispatch() {
    let inverted: bool = nd();
    let op = std::mem::ManuallyDrop::new(marker(true, inverted));
    let plain = std::mem::ManuallyDrop::new(marker(true, false));
    let ctx = NullCtx;
    let a = any_c4();
    let b = any_c4();
    let first_fwd: bool = nd();
    let dir = |fwd: bool| if fwd { Direction::Fwd } else { Direction::Inv };
    let mut data = [a, b];
    assert!(op.apply(&ctx, &mut data, dir(first_fwd)) == 2);
    // same as the plain operator in the exchanged direction when inverted
    let mut reference = [a, b];
    plain.apply(&ctx, &mut reference, dir(first_fwd != inverted));
    assert!(beq4(&data[0], &reference[0]) && beq4(&data[1], &reference[1]));
    unsafe {
        CALLS_F = 0;
        CALLS_I = 0;
    }
    let mut data = [a, b];
    op.apply(&ctx, &mut data, dir(first_fwd));
    op.apply(&ctx, &mut data, dir(!first_fwd));
    unsafe {
        assert!(CALLS_F == 1 && CALLS_I == 1);
    }
    assert!(beq4(&data[0], &a) && beq4(&data[1], &b));
    kani::cover!(inverted && first_fwd);
}

// @harness c01_handle_inversion prop=C01 tier=quick cap=900 stubs="M-BTREE" bound="invertible, initial inverted flag and requested inversion symbolic: toggles exactly when requested, twice is the identity, a non-invertible operator refuses inversion and is otherwise returned unchanged"
#[kani::proof]
#[kani::unwind(12)]
fn c01_handle_inversion() {
    let invertible: bool = nd();
    let inverted0: bool = nd();
    let request: bool = nd();
    let op = marker(invertible, inverted0);
    let r = std::mem::ManuallyDrop::new(op.handle_inversion(request));
    if invertible {
        assert!(r.is_ok());
        if let Ok(ref op) = *r {
            assert!(op.descriptor.inverted == (inverted0 != request));
            assert!(op.descriptor.invertible);
        }
    } else if request {
        assert!(r.is_err());
    } else {
        assert!(r.is_ok());
        if let Ok(ref op) = *r {
            assert!(op.descriptor.inverted == inverted0 && !op.descriptor.invertible);
        }
    }
    kani::cover!(invertible && request);
    kani::cover!(!invertible && request);
}
