// Shared helpers for the Kani harnesses (included as `crate::verif_common` under cfg(kani)).
use crate::authoring::*;

/// Bit equality with all NaNs identified
pub fn beq(a: f64, b: f64) -> bool {
    a.to_bits() == b.to_bits() || (a.is_nan() && b.is_nan())
}

/// Numeric equality (so +0 == -0) with all NaNs identified
pub fn feq(a: f64, b: f64) -> bool {
    a == b || (a.is_nan() && b.is_nan())
}

pub fn beq32(a: f32, b: f32) -> bool {
    a.to_bits() == b.to_bits() || (a.is_nan() && b.is_nan())
}

pub fn beq4(a: &Coor4D, b: &Coor4D) -> bool {
    beq(a.0[0], b.0[0]) && beq(a.0[1], b.0[1]) && beq(a.0[2], b.0[2]) && beq(a.0[3], b.0[3])
}

pub fn any_c4() -> Coor4D {
    Coor4D([kani::any(), kani::any(), kani::any(), kani::any()])
}

pub fn finite4(c: &Coor4D) -> bool {
    c.0[0].is_finite() && c.0[1].is_finite() && c.0[2].is_finite() && c.0[3].is_finite()
}

pub fn stub_uuid() -> uuid::Uuid {
    uuid::Uuid::nil()
}

/// An empty parameter set; harnesses insert what the constructor would have inserted.
pub fn mk_params(name: &str) -> ParsedParameters {
    ParsedParameters {
        name: if name.is_empty() { String::new() } else { kstring(name) },
        boolean: Default::default(),
        natural: Default::default(),
        integer: Default::default(),
        real: Default::default(),
        series: Default::default(),
        text: Default::default(),
        texts: Default::default(),
        uuid: Default::default(),
        fourier_coefficients: Default::default(),
        ignored: Vec::new(),
        given: Default::default(),
        grids: Vec::new(),
    }
}

pub fn nil_handle() -> OpHandle {
    // OpHandle is a newtype over Uuid with a private field; transmute of a nil uuid
    unsafe { core::mem::transmute::<uuid::Uuid, OpHandle>(uuid::Uuid::nil()) }
}

pub fn mk_descriptor(fwd: InnerOp, inv: InnerOp, invertible: bool, inverted: bool) -> OpDescriptor {
    OpDescriptor {
        invocation: String::new(),
        definition: String::new(),
        steps: Vec::new(),
        invertible,
        inverted,
        fwd,
        inv,
        id: nil_handle(),
    }
}

pub fn mk_op(params: ParsedParameters, fwd: InnerOp, inv: InnerOp) -> Op {
    Op {
        descriptor: mk_descriptor(fwd, inv, true, false),
        params,
        steps: Vec::new(),
        id: nil_handle(),
    }
}

// ---- bounded value domains for obligations that need float *arithmetic* equivalence.
// A fully symbolic `a*b == a*b` across a call boundary costs CBMC 200 s per multiplication
// (two identical multiplier circuits must be proved equal by SAT); with the operands ranging
// symbolically over a small stated value set the same query takes seconds. Obligations that
// only move/compare bits stay fully symbolic.

/// D-SMALL: the integers -3..=3 as f64 (symbolic choice)
pub fn small_f() -> f64 {
    let i: i8 = kani::any();
    kani::assume(i >= -3 && i <= 3);
    i as f64
}

/// D-SMALLNZ: the integers 1..=4 as f64 (symbolic choice), all distinct from 0
pub fn small_pos() -> f64 {
    let i: u8 = kani::any();
    kani::assume(i >= 1 && i <= 4);
    i as f64
}

pub const D_TABLE: [f64; 8] = [0.0, -0.0, 1.0, -2.5, 1e10, 3.0000000000000004, f64::INFINITY, f64::NAN];

/// D-TABLE: symbolic choice among 8 generic and special doubles
pub fn table_f() -> f64 {
    let i: usize = kani::any();
    kani::assume(i < 8);
    D_TABLE[i]
}

pub fn small_c4() -> Coor4D {
    Coor4D([small_f(), small_f(), small_f(), small_f()])
}

pub fn table_c4() -> Coor4D {
    Coor4D([table_f(), table_f(), table_f(), table_f()])
}

/// A `String` built byte by byte: CBMC constant-propagates the individual stores, whereas the
/// `memcpy` behind `String::from` leaves the contents opaque to symbolic execution (every
/// later `match s.as_str()` arm then stays feasible and the path count explodes).
pub fn kstring(s: &str) -> String {
    let mut out = String::with_capacity(16);
    for c in s.chars() {
        out.push(c);
    }
    out
}

/// Stub for `core::result::unwrap_failed`: the real one formats the error through
/// `fmt::Debug`, which drags the whole formatting machinery into the model (out of memory).
/// The stub keeps the panic, drops the message.
pub fn stub_unwrap_failed(_msg: &str, _error: &dyn core::fmt::Debug) -> ! {
    panic!("called `Result::unwrap()` on an `Err` value")
}

/// A `String` that borrows a static literal (never dropped: callers `mem::forget` the owner).
/// Its bytes are a constant static array, so `match s.as_str()` resolves during symbolic
/// execution exactly as for a literal.
pub fn sstring(s: &'static str) -> String {
    unsafe { String::from_raw_parts(s.as_ptr() as *mut u8, s.len(), s.len()) }
}

/// A context that offers nothing: kernels under test must not depend on it.
pub struct NullCtx;
impl Context for NullCtx {
    fn new() -> Self {
        NullCtx
    }
    fn op(&mut self, _definition: &str) -> Result<OpHandle, Error> {
        Err(Error::General("NullCtx"))
    }
    fn apply(&self, _op: OpHandle, _direction: Direction, _operands: &mut dyn CoordinateSet) -> Result<usize, Error> {
        Err(Error::General("NullCtx"))
    }
    fn globals(&self) -> BTreeMap<String, String> {
        BTreeMap::new()
    }
    fn steps(&self, _op: OpHandle) -> Result<&Vec<String>, Error> {
        Err(Error::General("NullCtx"))
    }
    fn params(&self, _op: OpHandle, _index: usize) -> Result<ParsedParameters, Error> {
        Err(Error::General("NullCtx"))
    }
    fn register_op(&mut self, _name: &str, _constructor: OpConstructor) {}
    fn register_resource(&mut self, _name: &str, _definition: &str) {}
    fn get_op(&self, _name: &str) -> Result<OpConstructor, Error> {
        Err(Error::General("NullCtx"))
    }
    fn get_resource(&self, _name: &str) -> Result<String, Error> {
        Err(Error::General("NullCtx"))
    }
    fn get_blob(&self, _name: &str) -> Result<Vec<u8>, Error> {
        Err(Error::General("NullCtx"))
    }
    fn get_grid(&self, _name: &str) -> Result<std::sync::Arc<dyn Grid>, Error> {
        Err(Error::General("NullCtx"))
    }
}

/// Parameter set whose `name` is a static-backed string (resolved by symbolic execution)
pub fn mk_params_s(name: &'static str) -> ParsedParameters {
    let mut p = mk_params("");
    let old = std::mem::replace(&mut p.name, sstring(name));
    std::mem::forget(old);
    p
}
