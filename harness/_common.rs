// Shared helpers for the Kani harnesses (included as `crate::verif_common` under cfg(kani)).
use crate::authoring::*;

/// Bit equality with all NaNs identified
pub fn beq(a: f64, b: f64) -> bool {
    a.to_bits() == b.to_bits() || (a.is_nan() && b.is_nan())
}

/// Numeric equality (so +0 == -0) with all NaNs identified
pub fn feq(a: f64, b: f64) -> bool {
    a == b || (a.is_nan() && b.is_nan())
}

pub fn beq32(a: f32, b: f32) -> bool {
    a.to_bits() == b.to_bits() || (a.is_nan() && b.is_nan())
}

pub fn beq4(a: &Coor4D, b: &Coor4D) -> bool {
    beq(a.0[0], b.0[0]) && beq(a.0[1], b.0[1]) && beq(a.0[2], b.0[2]) && beq(a.0[3], b.0[3])
}

pub fn any_c4() -> Coor4D {
    Coor4D([nd(), nd(), nd(), nd()])
}

pub fn finite4(c: &Coor4D) -> bool {
    c.0[0].is_finite() && c.0[1].is_finite() && c.0[2].is_finite() && c.0[3].is_finite()
}

pub fn stub_uuid() -> uuid::Uuid {
    uuid::Uuid::nil()
}

/// An empty parameter set; harnesses insert what the constructor would have inserted.
pub fn mk_params(name: &str) -> ParsedParameters {
    ParsedParameters {
        name: if name.is_empty() { String::new() } else { kstring(name) },
        boolean: Default::default(),
        natural: Default::default(),
        integer: Default::default(),
        real: Default::default(),
        series: Default::default(),
        text: Default::default(),
        texts: Default::default(),
        uuid: Default::default(),
        fourier_coefficients: Default::default(),
        ignored: Vec::new(),
        given: Default::default(),
        grids: Vec::new(),
    }
}

pub fn nil_handle() -> OpHandle {
    // OpHandle is a newtype over Uuid with a private field; transmute of a nil uuid
    unsafe { core::mem::transmute::<uuid::Uuid, OpHandle>(uuid::Uuid::nil()) }
}

pub fn mk_descriptor(fwd: InnerOp, inv: InnerOp, invertible: bool, inverted: bool) -> OpDescriptor {
    OpDescriptor {
        invocation: String::new(),
        definition: String::new(),
        steps: Vec::new(),
        invertible,
        inverted,
        fwd,
        inv,
        id: nil_handle(),
    }
}

/// Harness-built operators are never dropped (`ManuallyDrop`): some of their strings and
/// vectors borrow static or stack memory (see `sstring`), and a failing assertion replayed
/// natively unwinds through the harness.
pub type MOp = std::mem::ManuallyDrop<Op>;

pub fn mk_op(params: ParsedParameters, fwd: InnerOp, inv: InnerOp) -> MOp {
    std::mem::ManuallyDrop::new(Op {
        descriptor: mk_descriptor(fwd, inv, true, false),
        params,
        steps: Vec::new(),
        id: nil_handle(),
    })
}

// ---- bounded value domains for obligations that need float *arithmetic* equivalence.
// A fully symbolic `a*b == a*b` across a call boundary costs CBMC 200 s per multiplication
// (two identical multiplier circuits must be proved equal by SAT); with the operands ranging
// symbolically over a small stated value set the same query takes seconds. Obligations that
// only move/compare bits stay fully symbolic.

/// D-SMALL: the integers -3..=3 as f64 (symbolic choice)
pub fn small_f() -> f64 {
    let i: i8 = nd();
    kani::assume(i >= -3 && i <= 3);
    i as f64
}

/// D-SMALLNZ: the integers 1..=4 as f64 (symbolic choice), all distinct from 0
pub fn small_pos() -> f64 {
    let i: u8 = nd();
    kani::assume(i >= 1 && i <= 4);
    i as f64
}

pub const D_TABLE: [f64; 8] = [0.0, -0.0, 1.0, -2.5, 1e10, 3.0000000000000004, f64::INFINITY, f64::NAN];

/// D-TABLE: symbolic choice among 8 generic and special doubles
pub fn table_f() -> f64 {
    let i: usize = nd();
    kani::assume(i < 8);
    D_TABLE[i]
}

pub fn small_c4() -> Coor4D {
    Coor4D([small_f(), small_f(), small_f(), small_f()])
}

pub fn table_c4() -> Coor4D {
    Coor4D([table_f(), table_f(), table_f(), table_f()])
}

/// A `String` built byte by byte: CBMC constant-propagates the individual stores, whereas the
/// `memcpy` behind `String::from` leaves the contents opaque to symbolic execution (every
/// later `match s.as_str()` arm then stays feasible and the path count explodes).
pub fn kstring(s: &str) -> String {
    let mut out = String::with_capacity(16);
    for c in s.chars() {
        out.push(c);
    }
    out
}

/// Stub for `core::result::unwrap_failed`: the real one formats the error through
/// `fmt::Debug`, which drags the whole formatting machinery into the model (out of memory).
/// The stub keeps the panic, drops the message.
pub fn stub_unwrap_failed(_msg: &str, _error: &dyn core::fmt::Debug) -> ! {
    panic!("called `Result::unwrap()` on an `Err` value")
}

/// A `String` that borrows a static literal (never dropped: callers `mem::forget` the owner).
/// Its bytes are a constant static array, so `match s.as_str()` resolves during symbolic
/// execution exactly as for a literal.
pub fn sstring(s: &'static str) -> String {
    unsafe { String::from_raw_parts(s.as_ptr() as *mut u8, s.len(), s.len()) }
}

/// A context that offers nothing: kernels under test must not depend on it.
pub struct NullCtx;
impl Context for NullCtx {
    fn new() -> Self {
        NullCtx
    }
    fn op(&mut self, _definition: &str) -> Result<OpHandle, Error> {
        Err(Error::General("NullCtx"))
    }
    fn apply(&self, _op: OpHandle, _direction: Direction, _operands: &mut dyn CoordinateSet) -> Result<usize, Error> {
        Err(Error::General("NullCtx"))
    }
    fn globals(&self) -> BTreeMap<String, String> {
        BTreeMap::new()
    }
    fn steps(&self, _op: OpHandle) -> Result<&Vec<String>, Error> {
        Err(Error::General("NullCtx"))
    }
    fn params(&self, _op: OpHandle, _index: usize) -> Result<ParsedParameters, Error> {
        Err(Error::General("NullCtx"))
    }
    fn register_op(&mut self, _name: &str, _constructor: OpConstructor) {}
    fn register_resource(&mut self, _name: &str, _definition: &str) {}
    fn get_op(&self, _name: &str) -> Result<OpConstructor, Error> {
        Err(Error::General("NullCtx"))
    }
    fn get_resource(&self, _name: &str) -> Result<String, Error> {
        Err(Error::General("NullCtx"))
    }
    fn get_blob(&self, _name: &str) -> Result<Vec<u8>, Error> {
        Err(Error::General("NullCtx"))
    }
    fn get_grid(&self, _name: &str) -> Result<std::sync::Arc<dyn Grid>, Error> {
        Err(Error::General("NullCtx"))
    }
}

/// Parameter set whose `name` is a static-backed string (resolved by symbolic execution)
pub fn mk_params_s(name: &'static str) -> std::mem::ManuallyDrop<ParsedParameters> {
    let mut p = std::mem::ManuallyDrop::new(mk_params(""));
    let old = std::mem::replace(&mut p.name, sstring(name));
    std::mem::forget(old);
    p
}

// ---- nondeterministic inputs that survive CBMC's formula slicing.
// Counterexample replay uses Kani's concrete playback, which lists the values of the
// `kani::any()` calls in call order. Without `--slice-formula` the playback run of a harness
// takes 10x longer than the proof run; with it, inputs outside the cone of influence of the
// failing assertion vanish from the trace and the remaining values shift position. Every input
// is therefore "pinned" by a trivially true assertion that the simplifier does not remove.
pub trait Pinned: Sized {
    fn nd() -> Self;
}
macro_rules! pin_int {
    ($($t:ty),*) => { $(impl Pinned for $t {
        fn nd() -> Self { let v: $t = kani::any(); assert!((v | 1) != 0); v }
    })* };
}
pin_int!(u8, u16, u32, u64, usize, i8, i16, i32, i64);
impl Pinned for bool {
    fn nd() -> Self {
        let v: bool = kani::any();
        assert!((v as u8 | 2) != 0);
        v
    }
}
impl Pinned for f64 {
    fn nd() -> Self {
        let v: f64 = kani::any();
        assert!((v.to_bits() | 1) != 0);
        v
    }
}
impl Pinned for f32 {
    fn nd() -> Self {
        let v: f32 = kani::any();
        assert!((v.to_bits() | 1) != 0);
        v
    }
}
// arrays are drawn element by element: Kani's concrete playback does not list array-typed
// nondeterministic values
impl<T: Pinned, const N: usize> Pinned for [T; N] {
    fn nd() -> Self {
        core::array::from_fn(|_| T::nd())
    }
}

/// `kani::any()` + pin
pub fn nd<T: Pinned>() -> T {
    T::nd()
}

// ---- S-ACC (flags): `ParsedParameters::boolean` answered from a harness-owned table.
// A flag set built with `if f { set.insert(..) }` for a symbolic f has a symbolic *shape*, and
// every later lookup then forks; the table keeps the shape concrete. `set_flag` also fills the
// real set, so that a native replay (where stubs are not applied) sees the same parameters.
pub static mut ACC_FLAGS: [(&'static str, bool); 10] = [("", false); 10];
pub static mut ACC_NFLAGS: usize = 0;

pub fn set_flag(p: &mut ParsedParameters, key: &'static str, value: bool) {
    if value {
        p.boolean.insert(key);
    }
    unsafe {
        ACC_FLAGS[ACC_NFLAGS] = (key, value);
        ACC_NFLAGS += 1;
    }
}

pub fn acc_boolean(_p: &ParsedParameters, key: &str) -> bool {
    unsafe {
        let mut i = 0;
        while i < ACC_NFLAGS {
            if ACC_FLAGS[i].0 == key {
                return ACC_FLAGS[i].1;
            }
            i += 1;
        }
    }
    false
}

/// D-TINY: the integers 0..=3 as f64 (symbolic choice)
pub fn tiny_f() -> f64 {
    let i: u8 = nd();
    kani::assume(i <= 3);
    i as f64
}

pub fn tiny_c4() -> Coor4D {
    Coor4D([tiny_f(), tiny_f(), tiny_f(), tiny_f()])
}

/// M-UTF8: model of `core::str::from_utf8` — ASCII input is valid, anything else is rejected.
/// The real validator's block-wise fast path does not get through CBMC in reasonable time.
/// Under-approximation for non-ASCII input (valid multi-byte text is treated as invalid):
/// stated as a bound wherever this stub is listed.
pub fn stub_from_utf8(v: &[u8]) -> Result<&str, core::str::Utf8Error> {
    let mut i = 0;
    let mut ascii = true;
    while i < v.len() {
        if v[i] >= 128 {
            ascii = false;
        }
        i += 1;
    }
    if ascii {
        Ok(unsafe { core::str::from_utf8_unchecked(v) })
    } else {
        // the std error type has no public constructor (and calling the real function here would
        // recurse into this stub): an all-zero value is `Utf8Error { valid_up_to: 0, error_len: None }`
        Err(unsafe { core::mem::zeroed::<core::str::Utf8Error>() })
    }
}

// ---- S-GRID: a grid whose containment answers and values are arbitrary (environment of the
// grid operators): `hit0` = contains at margin 0, `hit_half` = contains at margin 0.5.
#[derive(Debug)]
pub struct AnyGrid {
    pub nbands: usize,
    pub hit0: bool,
    pub hit_half: bool,
    pub value: Coor4D,
}
impl Grid for AnyGrid {
    fn bands(&self) -> usize {
        self.nbands
    }
    fn contains(&self, _coord: &Coor4D, margin: f64) -> bool {
        if margin == 0.0 {
            self.hit0
        } else {
            self.hit_half
        }
    }
    fn at(&self, coord: &Coor4D, margin: f64) -> Option<Coor4D> {
        if self.contains(coord, margin) {
            Some(self.value)
        } else {
            None
        }
    }
}

/// Arbitrary containment answers (monotone in the margin), value elements in D-SMALL for the
/// bands the grid has and 0 for the others (as BaseGrid::at delivers)
pub fn any_anygrid(nbands: usize) -> AnyGrid {
    let hit0: bool = nd();
    let hit_half: bool = nd();
    kani::assume(!hit0 || hit_half);
    let mut v = [0f64; 4];
    let mut k = 0;
    while k < nbands && k < 4 {
        v[k] = small_f();
        k += 1;
    }
    AnyGrid { nbands, hit0, hit_half, value: Coor4D(v) }
}

/// S-GEO: stand-in for `GeoCart::geographic` (a page of libm calls): the identity. The grid
/// operators only use it to find the lookup position and the epoch.
pub fn stub_geographic<C: CoordinateTuple>(_e: &Ellipsoid, c: &C) -> Coor4D {
    let (x, y, z, t) = c.xyzt();
    Coor4D([x, y, z, t])
}

pub fn stub_ellps_default(_p: &ParsedParameters, _index: usize) -> Ellipsoid {
    Ellipsoid::default()
}

// ---- S-UF-SMALL: libm entry points as fixed, arbitrary-looking functions of the argument bits
// with values in {-3..3} (deterministic, so Kani's playback stays aligned and relational
// obligations see consistent results). Nothing numeric is claimed under these stubs.
fn mix(b: u64, k: u64) -> f64 {
    let h = (b ^ (b >> 29) ^ (b >> 47)).wrapping_mul(0x9E37_79B9_7F4A_7C15 ^ k);
    ((h >> 59) % 7) as i8 as f64 - 3.0
}
pub fn uf_unary(x: f64) -> f64 {
    mix(x.to_bits(), 1)
}
pub fn uf_unary_nonneg(x: f64) -> f64 {
    mix(x.to_bits(), 2).abs()
}
pub fn uf_binary(x: f64, y: f64) -> f64 {
    mix(x.to_bits() ^ y.to_bits().rotate_left(17), 3)
}
pub fn uf_binary_nonneg(x: f64, y: f64) -> f64 {
    // documented contract of hypot-like functions kept: f(0, 0) = 0
    if x == 0. && y == 0. {
        return 0.;
    }
    mix(x.to_bits() ^ y.to_bits().rotate_left(17), 4).abs()
}
pub fn uf_powi(x: f64, n: i32) -> f64 {
    mix(x.to_bits() ^ (n as u64), 5)
}
pub fn uf_sin_cos(x: f64) -> (f64, f64) {
    (mix(x.to_bits(), 6), mix(x.to_bits(), 7))
}

// ---- S-ACC (indexed accessors k/x/y/lat/lon): answered from harness-owned cells; `set_acc`
// also fills the real map so that a native replay (stubs not applied) sees the same values.
pub static mut ACC_K: f64 = 1.0;
pub static mut ACC_X: f64 = 0.0;
pub static mut ACC_Y: f64 = 0.0;
pub static mut ACC_LAT: f64 = 0.0;
pub static mut ACC_LON: f64 = 0.0;

pub fn set_acc(p: &mut ParsedParameters, k: f64, x: f64, y: f64, lat: f64, lon: f64) {
    unsafe {
        ACC_K = k;
        ACC_X = x;
        ACC_Y = y;
        ACC_LAT = lat;
        ACC_LON = lon;
    }
    p.real.insert("k_0", k);
    p.real.insert("x_0", x);
    p.real.insert("y_0", y);
    p.real.insert("lat_0", lat);
    p.real.insert("lon_0", lon);
}
pub fn acc_k(_p: &ParsedParameters, _i: usize) -> f64 {
    unsafe { ACC_K }
}
pub fn acc_x(_p: &ParsedParameters, _i: usize) -> f64 {
    unsafe { ACC_X }
}
pub fn acc_y(_p: &ParsedParameters, _i: usize) -> f64 {
    unsafe { ACC_Y }
}
pub fn acc_lat(_p: &ParsedParameters, _i: usize) -> f64 {
    unsafe { ACC_LAT }
}
pub fn acc_lon(_p: &ParsedParameters, _i: usize) -> f64 {
    unsafe { ACC_LON }
}

// ---- S-GRID-SEQ: a grid answering arbitrarily PER CALL (a real grid is a function of the
// position, and the inverse gridshift iteration looks up a different position every round:
// it may find the first and lose a later one - "wandering off the grid").
pub static mut SEQ_CALLS: usize = 0;
#[derive(Debug)]
pub struct SeqGrid {
    pub nbands: usize,
    pub hit: [bool; 24],
    pub value: Coor4D,
}
impl Grid for SeqGrid {
    fn bands(&self) -> usize {
        self.nbands
    }
    fn contains(&self, _coord: &Coor4D, _margin: f64) -> bool {
        true
    }
    fn at(&self, _coord: &Coor4D, _margin: f64) -> Option<Coor4D> {
        unsafe {
            let k = SEQ_CALLS;
            SEQ_CALLS += 1;
            if k < 24 && self.hit[k] {
                Some(self.value)
            } else {
                None
            }
        }
    }
}
