// C19 — coordinate tuple containers: element access, typed and bulk accessors, arithmetic.
// All f64 bit patterns, all indices (usize). No stubs, no models needed.

// @harness c19_coor4d_set_nth prop=C19 tier=quick btree=no bound="all f64, all usize indices" note="set_nth/nth round trip, out-of-range => NaN fill"
#[kani::proof]
#[kani::unwind(6)]
fn c19_coor4d_set_nth() {
    let orig = any_c4();
    let mut c = orig;
    let n: usize = nd();
    let v: f64 = nd();
    c.set_nth(n, v);
    if n < 4 {
        assert!(beq(c.nth(n), v));
        for k in 0..4 {
            if k != n {
                assert!(beq(c.nth(k), orig.0[k]));
            }
        }
    } else {
        for k in 0..4 {
            assert!(c.nth(k).is_nan());
        }
    }
    // out-of-range read is NaN, never a crash
    let m: usize = nd();
    if m >= 4 {
        assert!(orig.nth(m).is_nan());
    } else {
        assert!(beq(orig.nth(m), orig.0[m]));
    }
    assert!(orig.dim() == 4);
    kani::cover!(n < 4);
    kani::cover!(n >= 4);
}

// @harness c19_coor3d_set_nth prop=C19 tier=quick btree=no bound="all f64, all usize indices"
#[kani::proof]
#[kani::unwind(6)]
fn c19_coor3d_set_nth() {
    let orig = Coor3D([nd(), nd(), nd()]);
    let mut c = orig;
    let n: usize = nd();
    let v: f64 = nd();
    c.set_nth(n, v);
    if n < 3 {
        assert!(beq(c.nth(n), v));
        for k in 0..3 {
            if k != n {
                assert!(beq(c.nth(k), orig.0[k]));
            }
        }
    } else {
        for k in 0..3 {
            assert!(c.nth(k).is_nan());
        }
    }
    let m: usize = nd();
    if m >= 3 {
        assert!(orig.nth(m).is_nan());
    } else {
        assert!(beq(orig.nth(m), orig.0[m]));
    }
    assert!(orig.dim() == 3);
    assert!(orig.t().is_nan());
    kani::cover!(n < 3);
}

// @harness c19_coor2d_set_nth prop=C19 tier=quick btree=no bound="all f64, all usize indices"
#[kani::proof]
#[kani::unwind(6)]
fn c19_coor2d_set_nth() {
    let orig = Coor2D([nd(), nd()]);
    let mut c = orig;
    let n: usize = nd();
    let v: f64 = nd();
    c.set_nth(n, v);
    if n < 2 {
        assert!(beq(c.nth(n), v));
        assert!(beq(c.nth(1 - n), orig.0[1 - n]));
    } else {
        assert!(c.nth(0).is_nan() && c.nth(1).is_nan());
    }
    let m: usize = nd();
    if m >= 2 {
        assert!(orig.nth(m).is_nan());
    } else {
        assert!(beq(orig.nth(m), orig.0[m]));
    }
    assert!(orig.dim() == 2);
    assert!(orig.z().is_nan() && orig.t().is_nan());
    kani::cover!(n < 2);
}

// @harness c19_coor32_set_nth prop=C19 tier=quick btree=no bound="all f64 values, all f32 contents, all usize indices"
#[kani::proof]
#[kani::unwind(6)]
fn c19_coor32_set_nth() {
    let orig = Coor32([nd(), nd()]);
    let mut c = orig;
    let n: usize = nd();
    let v: f64 = nd();
    c.set_nth(n, v);
    if n < 2 {
        // the stored dimension is the f32 rounding of what was written
        assert!(beq32(c.0[n], v as f32));
        assert!(beq(c.nth(n), (v as f32) as f64));
        assert!(beq32(c.0[1 - n], orig.0[1 - n]));
    } else {
        assert!(c.nth(0).is_nan() && c.nth(1).is_nan());
    }
    let m: usize = nd();
    if m >= 2 {
        assert!(orig.nth(m).is_nan());
    } else {
        assert!(beq(orig.nth(m), orig.0[m] as f64));
    }
    assert!(orig.dim() == 2);
    kani::cover!(n < 2);
}

// @harness c19_pair_set_nth prop=C19 tier=quick btree=no bound="all f64, all usize indices" note="(f64,f64) as CoordinateTuple"
#[kani::proof]
#[kani::unwind(6)]
fn c19_pair_set_nth() {
    let orig: (f64, f64) = (nd(), nd());
    let mut c = orig;
    let n: usize = nd();
    let v: f64 = nd();
    c.set_nth(n, v);
    if n == 0 {
        assert!(beq(c.0, v) && beq(c.1, orig.1));
    } else if n == 1 {
        assert!(beq(c.1, v) && beq(c.0, orig.0));
    } else {
        assert!(c.0.is_nan() && c.1.is_nan());
    }
    let m: usize = nd();
    let r = orig.nth(m);
    if m >= 2 {
        assert!(r.is_nan());
    }
    assert!(beq(orig.x(), orig.0) && beq(orig.y(), orig.1) && orig.z().is_nan() && orig.t().is_nan());
    kani::cover!(n == 1);
}

// @harness c19_coor4d_accessors prop=C19 tier=quick btree=no bound="all f64" note="typed + bulk accessors, setters, update, new/fill"
#[kani::proof]
#[kani::unwind(6)]
fn c19_coor4d_accessors() {
    let c = any_c4();
    assert!(beq(c.x(), c.0[0]) && beq(c.y(), c.0[1]) && beq(c.z(), c.0[2]) && beq(c.t(), c.0[3]));
    let (x, y) = c.xy();
    assert!(beq(x, c.0[0]) && beq(y, c.0[1]));
    let (x, y, z) = c.xyz();
    assert!(beq(x, c.0[0]) && beq(y, c.0[1]) && beq(z, c.0[2]));
    let (x, y, z, t) = c.xyzt();
    assert!(beq(x, c.0[0]) && beq(y, c.0[1]) && beq(z, c.0[2]) && beq(t, c.0[3]));
    assert!(beq(c[2], c.0[2]));
    // setters
    let (p, q, r, s): (f64, f64, f64, f64) = (nd(), nd(), nd(), nd());
    let mut d = c;
    d.set_xy(p, q);
    assert!(beq(d.0[0], p) && beq(d.0[1], q) && beq(d.0[2], c.0[2]) && beq(d.0[3], c.0[3]));
    let mut d = c;
    d.set_xyz(p, q, r);
    assert!(beq(d.0[0], p) && beq(d.0[1], q) && beq(d.0[2], r) && beq(d.0[3], c.0[3]));
    let mut d = c;
    d.set_xyzt(p, q, r, s);
    assert!(beq(d.0[0], p) && beq(d.0[1], q) && beq(d.0[2], r) && beq(d.0[3], s));
    // update with a slice of length 0..=5
    let vals: [f64; 5] = nd();
    let l: usize = nd();
    kani::assume(l <= 5);
    let mut d = c;
    d.update(&vals[..l]);
    for k in 0..4 {
        if k < l {
            assert!(beq(d.0[k], vals[k]));
        } else {
            assert!(beq(d.0[k], c.0[k]));
        }
    }
    let f: f64 = nd();
    let n = <Coor4D as CoordinateTuple>::new(f);
    assert!(beq(n.0[0], f) && beq(n.0[1], f) && beq(n.0[2], f) && beq(n.0[3], f));
    let r = Coor4D::raw(p, q, r, s);
    assert!(beq(r.0[0], p) && beq(r.0[3], s));
    let nan = Coor4D::nan();
    assert!(nan.0[0].is_nan() && nan.0[1].is_nan() && nan.0[2].is_nan() && nan.0[3].is_nan());
    kani::cover!(l == 5);
}

// @harness c19_lowdim_accessors prop=C19 tier=quick btree=no bound="all f64 / f32" note="Coor3D, Coor2D, Coor32: typed accessors, setters beyond the dimension fill NaN"
#[kani::proof]
#[kani::unwind(6)]
fn c19_lowdim_accessors() {
    let (p, q, r, s): (f64, f64, f64, f64) = (nd(), nd(), nd(), nd());
    let c = Coor3D([nd(), nd(), nd()]);
    let (x, y, z, t) = c.xyzt();
    assert!(beq(x, c.0[0]) && beq(y, c.0[1]) && beq(z, c.0[2]) && t.is_nan());
    let mut d = c;
    d.set_xyz(p, q, r);
    assert!(beq(d.0[0], p) && beq(d.0[1], q) && beq(d.0[2], r));
    let mut d = c;
    d.set_xy(p, q);
    assert!(beq(d.0[0], p) && beq(d.0[1], q) && beq(d.0[2], c.0[2]));
    let mut d = c;
    d.set_xyzt(p, q, r, s);
    assert!(d.0[0].is_nan() && d.0[1].is_nan() && d.0[2].is_nan());

    let c = Coor2D([nd(), nd()]);
    let (x, y, z, t) = c.xyzt();
    assert!(beq(x, c.0[0]) && beq(y, c.0[1]) && z.is_nan() && t.is_nan());
    let mut d = c;
    d.set_xy(p, q);
    assert!(beq(d.0[0], p) && beq(d.0[1], q));
    let mut d = c;
    d.set_xyz(p, q, r);
    assert!(d.0[0].is_nan() && d.0[1].is_nan());

    let c = Coor32([nd(), nd()]);
    let (x, y, z, t) = c.xyzt();
    assert!(beq(x, c.0[0] as f64) && beq(y, c.0[1] as f64) && z.is_nan() && t.is_nan());
    let mut d = c;
    d.set_xy(p, q);
    assert!(beq32(d.0[0], p as f32) && beq32(d.0[1], q as f32));
    kani::cover!(true);
}

// Arithmetic operators: the oracle is the element-wise definition. Equivalence of float
// arithmetic is decided over bounded value domains (see _common.rs); which element feeds which
// is what the obligation is about, and that is fully decided within the domain.

// @harness c19_arith_4d_small prop=C19 tier=quick btree=no bound="elements in D-SMALL = {-3..3} (7^8 operand pairs, symbolic), factor in D-SMALL" note="Add/Sub/Mul/Div by value and by reference, scale, dot == element-wise definitions"
#[kani::proof]
#[kani::unwind(6)]
fn c19_arith_4d_small() {
    let a = small_c4();
    let b = small_c4();
    let (s, d, m, q) = (a + b, a - b, a * b, a / b);
    let (sr, dr, mr, qr) = (a + &b, a - &b, a * &b, a / &b);
    for k in 0..4 {
        assert!(beq(s.0[k], a.0[k] + b.0[k]));
        assert!(beq(d.0[k], a.0[k] - b.0[k]));
        assert!(beq(m.0[k], a.0[k] * b.0[k]));
        assert!(beq(q.0[k], a.0[k] / b.0[k]));
        assert!(beq(sr.0[k], s.0[k]) && beq(dr.0[k], d.0[k]) && beq(mr.0[k], m.0[k]) && beq(qr.0[k], q.0[k]));
    }
    let f = small_f();
    let sc = a.scale(f);
    for k in 0..4 {
        assert!(beq(sc.0[k], a.0[k] * f));
    }
    let dt = a.dot(b);
    let mut e = 0.;
    for k in 0..4 {
        e += a.0[k] * b.0[k];
    }
    assert!(feq(dt, e));
    kani::cover!(true);
}

// @harness c19_arith_4d_table prop=C19 tier=thorough btree=no cap=900 bound="elements in D-TABLE (8 generic/special doubles incl. NaN, inf, -0; 8^8 pairs, symbolic)"
#[kani::proof]
#[kani::unwind(6)]
fn c19_arith_4d_table() {
    let a = table_c4();
    let b = table_c4();
    let (s, d, m, q) = (a + b, a - b, a * b, a / b);
    for k in 0..4 {
        assert!(beq(s.0[k], a.0[k] + b.0[k]));
        assert!(beq(d.0[k], a.0[k] - b.0[k]));
        assert!(beq(m.0[k], a.0[k] * b.0[k]));
        assert!(beq(q.0[k], a.0[k] / b.0[k]));
    }
    kani::cover!(true);
}

// @harness c19_arith_lowdim_small prop=C19 tier=quick btree=no bound="elements in D-SMALL (f64) resp. small integers as f32" note="Coor3D, Coor2D, Coor32, Coor2D op Coor32; inherent scale/dot == trait defaults for f64 tuples"
#[kani::proof]
#[kani::unwind(6)]
fn c19_arith_lowdim_small() {
    let a = Coor3D([small_f(), small_f(), small_f()]);
    let b = Coor3D([small_f(), small_f(), small_f()]);
    let (s, d, m, q) = (a + b, a - b, a * b, a / b);
    for k in 0..3 {
        assert!(beq(s.0[k], a.0[k] + b.0[k]));
        assert!(beq(d.0[k], a.0[k] - b.0[k]));
        assert!(beq(m.0[k], a.0[k] * b.0[k]));
        assert!(beq(q.0[k], a.0[k] / b.0[k]));
    }
    let f = small_f();
    let sc = a.scale(f);
    let sct = CoordinateTuple::scale(&a, f);
    for k in 0..3 {
        assert!(beq(sc.0[k], a.0[k] * f));
        assert!(beq(sct.0[k], a.0[k] * f));
    }
    assert!(feq(a.dot(b), 0. + a.0[0] * b.0[0] + a.0[1] * b.0[1] + a.0[2] * b.0[2]));
    assert!(feq(CoordinateTuple::dot(&a, b), 0. + a.0[0] * b.0[0] + a.0[1] * b.0[1] + a.0[2] * b.0[2]));

    let a = Coor2D([small_f(), small_f()]);
    let b = Coor2D([small_f(), small_f()]);
    let c = Coor32([small_f() as f32, small_f() as f32]);
    let (s, d, m, q) = (a + b, a - b, a * b, a / b);
    let sm = a + c;
    for k in 0..2 {
        assert!(beq(s.0[k], a.0[k] + b.0[k]));
        assert!(beq(d.0[k], a.0[k] - b.0[k]));
        assert!(beq(m.0[k], a.0[k] * b.0[k]));
        assert!(beq(q.0[k], a.0[k] / b.0[k]));
        assert!(beq(sm.0[k], a.0[k] + (c.0[k] as f64)));
    }
    let sc = a.scale(f);
    assert!(beq(sc.0[0], a.0[0] * f) && beq(sc.0[1], a.0[1] * f));
    assert!(feq(a.dot(b), a.0[0] * b.0[0] + a.0[1] * b.0[1]));

    let e = Coor32([small_f() as f32, small_f() as f32]);
    let (s, d, m, q) = (c + e, c - e, c * e, c / e);
    for k in 0..2 {
        assert!(beq32(s.0[k], c.0[k] + e.0[k]));
        assert!(beq32(d.0[k], c.0[k] - e.0[k]));
        assert!(beq32(m.0[k], c.0[k] * e.0[k]));
        assert!(beq32(q.0[k], c.0[k] / e.0[k]));
    }
    assert!(feq(c.dot(e), c.0[0] as f64 * e.0[0] as f64 + c.0[1] as f64 * e.0[1] as f64));
    kani::cover!(true);
}
