// C19 — angular encodings: degree-minute-second, ISO-6709 DDDMM.mmm / DDDMMSS.sss, normalisation.

// @harness c19_dms_to_dd prop=C19 tier=quick btree=no cap=900 bound="d in -720..=720, m in 0..60, s in {0,15,30,45} (symbolic): sign follows d (non-negative d => non-negative result), magnitude == |d| + (m + s/60)/60, in particular for d = 0"
#[kani::proof]
#[kani::unwind(4)]
fn c19_dms_to_dd() {
    let d: i32 = nd();
    let m: u16 = nd();
    let q: u8 = nd();
    kani::assume(d >= -720 && d <= 720 && m < 60 && q < 4);
    let s = q as f64 * 15.;
    let v = dms_to_dd(d, m, s);
    let mag = d.abs() as f64 + (m as f64 + s / 60.) / 60.;
    assert!(feq(v.abs(), mag));
    if d < 0 {
        assert!(v < 0.);
    } else {
        assert!(v >= 0.);
    }
    kani::cover!(d == 0 && m > 0);
}

// @harness c19_dm_to_dd prop=C19 tier=quick btree=no cap=900 bound="d in -720..=720, minutes = k/4 for k in 0..240 (symbolic): sign follows d, magnitude == |d| + m/60, in particular for d = 0"
#[kani::proof]
#[kani::unwind(4)]
fn c19_dm_to_dd() {
    let d: i32 = nd();
    let k: u16 = nd();
    kani::assume(d >= -720 && d <= 720 && k < 240);
    let m = k as f64 * 0.25;
    let v = dm_to_dd(d, m);
    let mag = d.abs() as f64 + (m / 60.);
    assert!(feq(v.abs(), mag));
    if d < 0 {
        assert!(v < 0.);
    } else {
        assert!(v >= 0.);
    }
    kani::cover!(d == 0 && k > 0);
}

fn lattice_dd() -> f64 {
    // the lattice k/64 degrees, |dd| <= 720 (92161 points, symbolic), both signs incl. |dd| < 1
    let k: i32 = nd();
    kani::assume(k >= -720 * 64 && k <= 720 * 64);
    k as f64 / 64.
}

// @harness c19_iso_dm_roundtrip prop=C19 tier=quick btree=no cap=900 bound="dd on the lattice k/64 degrees, |dd| <= 720 (symbolic k): iso_dm_to_dd(dd_to_iso_dm(dd)) within 1e-9 degrees; encoded minutes in [0,60); sign preserved"
#[kani::proof]
#[kani::unwind(4)]
fn c19_iso_dm_roundtrip() {
    let dd = lattice_dd();
    let enc = dd_to_iso_dm(dd);
    let back = iso_dm_to_dd(enc);
    assert!((back - dd).abs() <= 1e-9);
    let a = enc.abs();
    let minutes = a - (a / 100.).floor() * 100.;
    assert!(minutes >= 0. && minutes < 60.);
    assert!(dd == 0. || (enc < 0.) == (dd < 0.));
    kani::cover!(dd < 0. && dd > -1.);
}

// @harness c19_iso_dms_roundtrip prop=C19 tier=quick btree=no cap=900 bound="dd on the lattice k/64 degrees, |dd| <= 720 (symbolic k): iso_dms_to_dd(dd_to_iso_dms(dd)) within 1e-9 degrees; sign preserved"
#[kani::proof]
#[kani::unwind(4)]
fn c19_iso_dms_roundtrip() {
    let dd = lattice_dd();
    let enc = dd_to_iso_dms(dd);
    let back = iso_dms_to_dd(enc);
    assert!((back - dd).abs() <= 1e-9);
    assert!(dd == 0. || (enc < 0.) == (dd < 0.));
    kani::cover!(dd < 0. && dd > -1.);
}

// @harness c19_iso_decode_lattice prop=C19 tier=quick btree=no cap=900 bound="DDDMMSS with D in 0..720, M,S in 0..60 (symbolic integers), both signs: iso_dms_to_dd == +-(D + (S/60 + M)/60); DDDMM likewise"
#[kani::proof]
#[kani::unwind(4)]
fn c19_iso_decode_lattice() {
    let d: u32 = nd();
    let m: u32 = nd();
    let s: u32 = nd();
    let neg: bool = nd();
    kani::assume(d <= 720 && m < 60 && s < 60);
    let sign = if neg { -1. } else { 1. };
    let enc = sign * (d * 10000 + m * 100 + s) as f64;
    let v = iso_dms_to_dd(enc);
    let want = d as f64 + ((s as f64 / 60.) + m as f64) / 60.;
    assert!(feq(v.abs(), want));
    assert!(want == 0. || (v < 0.) == neg);
    let enc = sign * (d * 100 + m) as f64;
    let v = iso_dm_to_dd(enc);
    let want = d as f64 + (m as f64 / 60.);
    assert!(feq(v.abs(), want));
    assert!(want == 0. || (v < 0.) == neg);
    kani::cover!(d == 0 && neg && m > 0);
}
