// C09 — no input makes the public functions of the angular module panic (Kani's own checks:
// arithmetic overflow, division by zero, failed casts are the property). All bit patterns.

// @harness c09_angular_f64_functions prop=C09 tier=quick btree=no cap=900 bound="all f64 bit patterns (NaN, infinities, subnormals, huge): iso_dm_to_dd, dd_to_iso_dm, iso_dms_to_dd, dd_to_iso_dms return without panic"
#[kani::proof]
#[kani::unwind(4)]
fn c09_angular_f64_functions() {
    let x: f64 = nd();
    let _ = iso_dm_to_dd(x);
    let _ = dd_to_iso_dm(x);
    let _ = iso_dms_to_dd(x);
    let _ = dd_to_iso_dms(x);
    kani::cover!(x.is_nan());
    kani::cover!(x.is_infinite());
}

// @harness c09_angular_dms_all_integers prop=C09 tier=quick btree=no cap=900 bound="all i32 degrees, all u16 minutes, all f64 seconds: dms_to_dd and dm_to_dd return without panic (i32::MIN included)"
#[kani::proof]
#[kani::unwind(4)]
fn c09_angular_dms_all_integers() {
    let d: i32 = nd();
    let m: u16 = nd();
    let s: f64 = nd();
    let _ = dms_to_dd(d, m, s);
    let _ = dm_to_dd(d, s);
    kani::cover!(d == i32::MIN);
}

// @harness c09_angular_normalize prop=C09 tier=thorough btree=no cap=3600 may_timeout=yes bound="normalize_symmetric / normalize_positive on all finite f64 with |angle| <= 1e6: no panic; result in [-pi, pi] resp. [0, 2pi]"
#[kani::proof]
#[kani::unwind(4)]
fn c09_angular_normalize() {
    use std::f64::consts::PI;
    let x: f64 = nd();
    kani::assume(x.is_finite() && x.abs() <= 1e6);
    let s = normalize_symmetric(x);
    let p = normalize_positive(x);
    assert!(s >= -PI && s <= PI);
    assert!(p >= 0. && p <= 2.0 * PI);
    kani::cover!(x < 0.);
}
