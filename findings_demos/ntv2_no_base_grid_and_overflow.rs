// Fails on /repo commit 21da37d (before 9c30411 and e7ea273), passes afterwards.
// Drop into tests/ and run: cargo test --offline --test ntv2_no_base_grid_and_overflow
use geodesy::authoring::*;
fn overview(nfile: u32) -> Vec<u8> {
    let mut b = vec![0u8; 176];
    b[0..8].copy_from_slice(b"NUM_OREC"); b[8..12].copy_from_slice(&11u32.to_le_bytes());
    b[16..24].copy_from_slice(b"NUM_SREC"); b[24..28].copy_from_slice(&11u32.to_le_bytes());
    b[32..40].copy_from_slice(b"NUM_FILE"); b[40..44].copy_from_slice(&nfile.to_le_bytes());
    b[48..56].copy_from_slice(b"GS_TYPE "); b[56..64].copy_from_slice(b"SECONDS ");
    b
}
#[test]
fn no_subgrids_query() {
    // panicked at src/grid/ntv2/mod.rs: unwrap of lookup_table.get("NONE")
    let g = Ntv2Grid::new(&overview(0)).unwrap();
    assert!(g.at(&Coor4D([0., 0., 0., 0.]), 0.5).is_none());
}
#[test]
fn zero_step_subgrid() {
    // panicked at src/grid/ntv2/subgrid.rs: attempt to multiply with overflow (debug build)
    let mut b = overview(1);
    b.extend(vec![0u8; 176]);
    b[176 + 88..176 + 96].copy_from_slice(&1f64.to_le_bytes());
    b[176 + 104..176 + 112].copy_from_slice(&1f64.to_le_bytes());
    assert!(Ntv2Grid::new(&b).is_err());
}
